/-
Relabelling of positions (C16, downstream of the tokenizer).

Every byte position that reaches the AST, the validated file or an error was stored in a token by the tokenizer
and is only ever *copied* afterwards.  `mapPos ρ` replaces every stored position `p` by `ρ p`, in tokens, CSTs,
ASTs, validated files and errors.  The front end is *natural* in the positions: running it on relabelled
tokens gives the relabelled result (`parse_map`, `cstToAst_map`, `validateAst_map`), and everything after
validation does not look at positions at all (`encode_map`, `moduleOf_map`).
-/
import KikiVerif.Model.FrontParse
import KikiVerif.Model.Validate
import KikiVerif.Model.Encode
import KikiVerif.Model.Emit

set_option linter.unusedSimpArgs false
set_option linter.unusedVariables false

namespace KikiVerif
namespace Relabel
open LR FrontParse

variable (ρ : Nat → Nat)

def tokenMap : Token → Token
  | .underscore p => .underscore (ρ p)
  | .ident n p => .ident n (ρ p)
  | .termIdent n p => .termIdent n (ρ p)
  | .attr s p => .attr s (ρ p)
  | .startKw p => .startKw (ρ p)
  | .structKw p => .structKw (ρ p)
  | .enumKw p => .enumKw (ρ p)
  | .terminalKw p => .terminalKw (ρ p)
  | .colon p => .colon (ρ p)
  | .dcolon p => .dcolon (ρ p)
  | .comma p => .comma (ρ p)
  | .lparen p => .lparen (ρ p)
  | .rparen p => .rparen (ρ p)
  | .lcurly p => .lcurly (ρ p)
  | .rcurly p => .rcurly (ρ p)
  | .langle p => .langle (ρ p)
  | .rangle p => .rangle (ρ p)

theorem kind_tokenMap (t : Token) : Token.kind (tokenMap ρ t) = Token.kind t := by cases t <;> rfl

def leafMap (t : FTok) : FTok := ⟨t.kind, tokenMap ρ t.payload⟩

theorem mkTok_map (t : Token) : mkTok (tokenMap ρ t) = leafMap ρ (mkTok t) := by
  simp [mkTok, leafMap, kind_tokenMap]

mutual
def treeMap : CTree → CTree
  | .leaf t => .leaf (leafMap ρ t)
  | .node r cs => .node r (treeMapL cs)
def treeMapL : List CTree → List CTree
  | [] => []
  | c :: cs => treeMap c :: treeMapL cs
end

theorem treeMapL_eq (cs : List CTree) : treeMapL ρ cs = cs.map (treeMap ρ) := by
  induction cs with
  | nil => rfl
  | cons c cs ih => simp [treeMapL, ih]

/-! ### the AST functor -/

def identMap (i : Ast.Ident) : Ast.Ident := ⟨i.name, ρ i.pos⟩
def termIdentMap (i : Ast.TermIdent) : Ast.TermIdent := ⟨i.name, ρ i.dpos⟩
def attrMap (a : Ast.Attr) : Ast.Attr := ⟨a.src, ρ a.pos⟩
def symIdMap : Ast.SymId → Ast.SymId
  | .n i => .n (identMap ρ i)
  | .t i => .t (termIdentMap ρ i)
def fieldNameMap : Ast.FieldName → Ast.FieldName
  | .id i => .id (identMap ρ i)
  | .us p => .us (ρ p)
def namedFieldMap (f : Ast.NamedField) : Ast.NamedField := ⟨fieldNameMap ρ f.name, symIdMap ρ f.sym⟩
def tupleFieldMap : Ast.TupleField → Ast.TupleField
  | .used s => .used (symIdMap ρ s)
  | .skipped s => .skipped (symIdMap ρ s)
def fieldsetMap : Ast.Fieldset → Ast.Fieldset
  | .empty => .empty
  | .named fs => .named (fs.map (namedFieldMap ρ))
  | .tuple fs => .tuple (fs.map (tupleFieldMap ρ))
mutual
def tyMap : Ast.Ty → Ast.Ty
  | .unit => .unit
  | .path p => .path (p.map (identMap ρ))
  | .complex callee args => .complex (callee.map (identMap ρ)) (tysMap args)
def tysMap : List Ast.Ty → List Ast.Ty
  | [] => []
  | t :: ts => tyMap t :: tysMap ts
end
def structMap (s : Ast.Struct) : Ast.Struct := ⟨s.attrs.map (attrMap ρ), identMap ρ s.name, fieldsetMap ρ s.fieldset⟩
def variantMap (v : Ast.Variant) : Ast.Variant := ⟨identMap ρ v.name, fieldsetMap ρ v.fieldset⟩
def enumMap (e : Ast.Enum) : Ast.Enum := ⟨e.attrs.map (attrMap ρ), identMap ρ e.name, e.variants.map (variantMap ρ)⟩
def termVariantMap (v : Ast.TermVariant) : Ast.TermVariant := ⟨termIdentMap ρ v.name, tyMap ρ v.ty⟩
def termEnumMap (t : Ast.TermEnum) : Ast.TermEnum :=
  ⟨t.attrs.map (attrMap ρ), identMap ρ t.name, t.variants.map (termVariantMap ρ)⟩
def itemMap : Ast.Item → Ast.Item
  | .start i => .start (identMap ρ i)
  | .struct s => .struct (structMap ρ s)
  | .enum e => .enum (enumMap ρ e)
  | .terminal t => .terminal (termEnumMap ρ t)
def fileMap (f : Ast.File) : Ast.File := ⟨f.items.map (itemMap ρ)⟩

theorem tysMap_eq (ts : List Ast.Ty) : tysMap ρ ts = ts.map (tyMap ρ) := by
  induction ts with
  | nil => rfl
  | cons t ts ih => simp [tysMap, ih]

/-! ### `cst_to_ast` is natural (where it succeeds) -/

theorem identOf_map {t : CTree} {v} (h : identOf t = some v) : identOf (treeMap ρ t) = some (identMap ρ v) := by
  fun_cases identOf t
  · simp only [identOf, Option.some.injEq] at h; subst h; simp [treeMap, leafMap, tokenMap, identOf, identMap]
  · simp_all [identOf]

theorem termIdentOf_map {t : CTree} {v} (h : termIdentOf t = some v) :
    termIdentOf (treeMap ρ t) = some (termIdentMap ρ v) := by
  fun_cases termIdentOf t
  · simp only [termIdentOf, Option.some.injEq] at h; subst h; simp [treeMap, leafMap, tokenMap, termIdentOf, termIdentMap]
  · simp_all [termIdentOf]

theorem attrOf_map {t : CTree} {v} (h : attrOf t = some v) : attrOf (treeMap ρ t) = some (attrMap ρ v) := by
  fun_cases attrOf t
  · simp only [attrOf, Option.some.injEq] at h; subst h; simp [treeMap, leafMap, tokenMap, attrOf, attrMap]
  · simp_all [attrOf]

theorem symIdOf_map {t : CTree} {v} (h : symIdOf t = some v) : symIdOf (treeMap ρ t) = some (symIdMap ρ v) := by
  fun_cases symIdOf t
  · simp only [symIdOf, Option.map_eq_some_iff] at h
    obtain ⟨a, ha, rfl⟩ := h
    simp [treeMap, treeMapL, symIdOf, identOf_map ρ ha, symIdMap]
  · simp only [symIdOf, Option.map_eq_some_iff] at h
    obtain ⟨a, ha, rfl⟩ := h
    simp [treeMap, treeMapL, symIdOf, termIdentOf_map ρ ha, symIdMap]
  · simp_all [symIdOf]

theorem fieldNameOf_map {t : CTree} {v} (h : fieldNameOf t = some v) :
    fieldNameOf (treeMap ρ t) = some (fieldNameMap ρ v) := by
  fun_cases fieldNameOf t
  · simp only [fieldNameOf, Option.map_eq_some_iff] at h
    obtain ⟨a, ha, rfl⟩ := h
    simp [treeMap, treeMapL, fieldNameOf, identOf_map ρ ha, fieldNameMap]
  · simp only [fieldNameOf, Option.some.injEq] at h
    subst h
    simp [treeMap, treeMapL, leafMap, tokenMap, fieldNameOf, fieldNameMap]
  · simp_all [fieldNameOf]

theorem namedFieldOf_map {t : CTree} {v} (h : namedFieldOf t = some v) :
    namedFieldOf (treeMap ρ t) = some (namedFieldMap ρ v) := by
  fun_cases namedFieldOf t
  · simp only [namedFieldOf, bind, Option.bind_eq_some_iff, pure, Option.some.injEq] at h
    obtain ⟨a, ha, b, hb, rfl⟩ := h
    simp [treeMap, treeMapL, namedFieldOf, fieldNameOf_map ρ ha, symIdOf_map ρ hb, namedFieldMap]
  · simp_all [namedFieldOf]

theorem namedFieldsOf_map : ∀ {t : CTree} {v}, namedFieldsOf t = some v →
    namedFieldsOf (treeMap ρ t) = some (v.map (namedFieldMap ρ)) := by
  intro t
  fun_induction namedFieldsOf t with
  | case1 f =>
    intro v h
    simp only [Option.map_eq_some_iff] at h
    obtain ⟨a, ha, rfl⟩ := h
    simp [treeMap, treeMapL, namedFieldsOf, namedFieldOf_map ρ ha]
  | case2 l r ih =>
    intro v h
    simp only [bind, Option.bind_eq_some_iff, pure, Option.some.injEq] at h
    obtain ⟨xs, hxs, x, hx, rfl⟩ := h
    simp [treeMap, treeMapL, namedFieldsOf, ih hxs, namedFieldOf_map ρ hx]
  | case3 t _ _ => intro v h; simp at h

theorem tupleFieldOf_map {t : CTree} {v} (h : tupleFieldOf t = some v) :
    tupleFieldOf (treeMap ρ t) = some (tupleFieldMap ρ v) := by
  fun_cases tupleFieldOf t
  · simp only [tupleFieldOf, Option.map_eq_some_iff] at h
    obtain ⟨a, ha, rfl⟩ := h
    simp [treeMap, treeMapL, tupleFieldOf, symIdOf_map ρ ha, tupleFieldMap]
  · simp only [tupleFieldOf, Option.map_eq_some_iff] at h
    obtain ⟨a, ha, rfl⟩ := h
    simp [treeMap, treeMapL, tupleFieldOf, symIdOf_map ρ ha, tupleFieldMap]
  · simp_all [tupleFieldOf]

theorem tupleFieldsOf_map : ∀ {t : CTree} {v}, tupleFieldsOf t = some v →
    tupleFieldsOf (treeMap ρ t) = some (v.map (tupleFieldMap ρ)) := by
  intro t
  fun_induction tupleFieldsOf t with
  | case1 f =>
    intro v h
    simp only [Option.map_eq_some_iff] at h
    obtain ⟨a, ha, rfl⟩ := h
    simp [treeMap, treeMapL, tupleFieldsOf, tupleFieldOf_map ρ ha]
  | case2 l r ih =>
    intro v h
    simp only [bind, Option.bind_eq_some_iff, pure, Option.some.injEq] at h
    obtain ⟨xs, hxs, x, hx, rfl⟩ := h
    simp [treeMap, treeMapL, tupleFieldsOf, ih hxs, tupleFieldOf_map ρ hx]
  | case3 t _ _ => intro v h; simp at h

theorem fieldsetOf_map {t : CTree} {v} (h : fieldsetOf t = some v) :
    fieldsetOf (treeMap ρ t) = some (fieldsetMap ρ v) := by
  fun_cases fieldsetOf t
  · simp only [fieldsetOf, Option.some.injEq] at h; subst h
    simp [treeMap, treeMapL, fieldsetOf, fieldsetMap]
  · simp only [fieldsetOf, Option.map_eq_some_iff] at h
    obtain ⟨a, ha, rfl⟩ := h
    simp [treeMap, treeMapL, fieldsetOf, namedFieldsOf_map ρ ha, fieldsetMap]
  · simp only [fieldsetOf, Option.map_eq_some_iff] at h
    obtain ⟨a, ha, rfl⟩ := h
    simp [treeMap, treeMapL, fieldsetOf, tupleFieldsOf_map ρ ha, fieldsetMap]
  · simp_all [fieldsetOf]

theorem attrsOf_map : ∀ {t : CTree} {v}, attrsOf t = some v →
    attrsOf (treeMap ρ t) = some (v.map (attrMap ρ)) := by
  intro t
  fun_induction attrsOf t with
  | case1 =>
    intro v h
    simp only [Option.some.injEq] at h; subst h
    simp [treeMap, treeMapL, attrsOf]
  | case2 l r ih =>
    intro v h
    simp only [bind, Option.bind_eq_some_iff, pure, Option.some.injEq] at h
    obtain ⟨xs, hxs, x, hx, rfl⟩ := h
    simp [treeMap, treeMapL, attrsOf, ih hxs, attrOf_map ρ hx]
  | case3 t _ _ => intro v h; simp at h

theorem pathOf_map : ∀ {t : CTree} {v}, pathOf t = some v →
    pathOf (treeMap ρ t) = some (v.map (identMap ρ)) := by
  intro t
  fun_induction pathOf t with
  | case1 i =>
    intro v h
    simp only [Option.map_eq_some_iff] at h
    obtain ⟨a, ha, rfl⟩ := h
    simp [treeMap, treeMapL, pathOf, identOf_map ρ ha]
  | case2 l sep i ih =>
    intro v h
    simp only [bind, Option.bind_eq_some_iff, pure, Option.some.injEq] at h
    obtain ⟨xs, hxs, x, hx, rfl⟩ := h
    simp [treeMap, treeMapL, pathOf, ih hxs, identOf_map ρ hx]
  | case3 t _ _ => intro v h; simp at h

theorem types_map :
    (∀ t : CTree, ∀ v, typeOf t = some v → typeOf (treeMap ρ t) = some (tyMap ρ v)) ∧
    (∀ t : CTree, ∀ v, typesOf t = some v → typesOf (treeMap ρ t) = some (v.map (tyMap ρ))) := by
  apply typeOf.mutual_induct
  · intro a b v h
    simp only [typeOf, Option.some.injEq] at h; subst h
    simp [treeMap, treeMapL, typeOf, tyMap]
  · intro p v h
    simp only [typeOf, Option.map_eq_some_iff] at h
    obtain ⟨a, ha, rfl⟩ := h
    simp [treeMap, treeMapL, typeOf, pathOf_map ρ ha, tyMap]
  · intro callee x args y ih v h
    simp only [typeOf, bind, Option.bind_eq_some_iff, pure, Option.some.injEq] at h
    obtain ⟨c, hc, a, ha, rfl⟩ := h
    simp [treeMap, treeMapL, typeOf, pathOf_map ρ hc, ih a ha, tyMap, tysMap_eq]
  · intro t h1 h2 h3 v h
    rw [typeOf.eq_def] at h
    split at h
    · exact absurd rfl (h1 _ _)
    · exact absurd rfl (h2 _)
    · exact absurd rfl (h3 _ _ _ _)
    · cases h
  · intro t ih v h
    simp only [typesOf, Option.map_eq_some_iff] at h
    obtain ⟨a, ha, rfl⟩ := h
    simp [treeMap, treeMapL, typesOf, ih a ha]
  · intro l x t ihl iht v h
    simp only [typesOf, bind, Option.bind_eq_some_iff, pure, Option.some.injEq] at h
    obtain ⟨xs, hxs, y, hy, rfl⟩ := h
    simp [treeMap, treeMapL, typesOf, ihl xs hxs, iht y hy]
  · intro t h1 h2 v h
    rw [typesOf.eq_def] at h
    split at h
    · exact absurd rfl (h1 _)
    · exact absurd rfl (h2 _ _ _)
    · cases h

theorem typeOf_map {t : CTree} {v} (h : typeOf t = some v) : typeOf (treeMap ρ t) = some (tyMap ρ v) :=
  (types_map ρ).1 t v h

theorem variantsOf_map : ∀ {t : CTree} {v}, variantsOf t = some v →
    variantsOf (treeMap ρ t) = some (v.map (variantMap ρ)) := by
  intro t
  fun_induction variantsOf t with
  | case1 =>
    intro v h
    simp only [Option.some.injEq] at h; subst h
    simp [treeMap, treeMapL, variantsOf]
  | case2 l name fs ih =>
    intro v h
    simp only [bind, Option.bind_eq_some_iff, pure, Option.some.injEq] at h
    obtain ⟨xs, hxs, n, hn, f, hf, rfl⟩ := h
    simp [treeMap, treeMapL, variantsOf, ih hxs, identOf_map ρ hn, fieldsetOf_map ρ hf, variantMap]
  | case3 t _ _ => intro v h; simp at h

theorem termVariantsOf_map : ∀ {t : CTree} {v}, termVariantsOf t = some v →
    termVariantsOf (treeMap ρ t) = some (v.map (termVariantMap ρ)) := by
  intro t
  fun_induction termVariantsOf t with
  | case1 =>
    intro v h
    simp only [Option.some.injEq] at h; subst h
    simp [treeMap, treeMapL, termVariantsOf]
  | case2 l name sep ty ih =>
    intro v h
    simp only [bind, Option.bind_eq_some_iff, pure, Option.some.injEq] at h
    obtain ⟨xs, hxs, n, hn, f, hf, rfl⟩ := h
    simp [treeMap, treeMapL, termVariantsOf, ih hxs, termIdentOf_map ρ hn, typeOf_map ρ hf, termVariantMap]
  | case3 t _ _ => intro v h; simp at h

theorem itemOf_map {t : CTree} {v} (h : itemOf t = some v) : itemOf (treeMap ρ t) = some (itemMap ρ v) := by
  fun_cases itemOf t
  · simp only [itemOf, Option.map_eq_some_iff] at h
    obtain ⟨a, ha, rfl⟩ := h
    simp [treeMap, treeMapL, itemOf, identOf_map ρ ha, itemMap]
  · simp only [itemOf, bind, Option.bind_eq_some_iff, pure, Option.some.injEq] at h
    obtain ⟨a, ha, n, hn, f, hf, rfl⟩ := h
    simp [treeMap, treeMapL, itemOf, attrsOf_map ρ ha, identOf_map ρ hn, fieldsetOf_map ρ hf, itemMap, structMap]
  · simp only [itemOf, bind, Option.bind_eq_some_iff, pure, Option.some.injEq] at h
    obtain ⟨a, ha, n, hn, f, hf, rfl⟩ := h
    simp [treeMap, treeMapL, itemOf, attrsOf_map ρ ha, identOf_map ρ hn, variantsOf_map ρ hf, itemMap, enumMap]
  · simp only [itemOf, bind, Option.bind_eq_some_iff, pure, Option.some.injEq] at h
    obtain ⟨a, ha, n, hn, f, hf, rfl⟩ := h
    simp [treeMap, treeMapL, itemOf, attrsOf_map ρ ha, identOf_map ρ hn, termVariantsOf_map ρ hf, itemMap, termEnumMap]
  · simp_all [itemOf]

theorem itemsOf_map : ∀ {t : CTree} {v}, itemsOf t = some v →
    itemsOf (treeMap ρ t) = some (v.map (itemMap ρ)) := by
  intro t
  fun_induction itemsOf t with
  | case1 =>
    intro v h
    simp only [Option.some.injEq] at h; subst h
    simp [treeMap, treeMapL, itemsOf]
  | case2 l r ih =>
    intro v h
    simp only [bind, Option.bind_eq_some_iff, pure, Option.some.injEq] at h
    obtain ⟨xs, hxs, x, hx, rfl⟩ := h
    simp [treeMap, treeMapL, itemsOf, ih hxs, itemOf_map ρ hx]
  | case3 t _ _ => intro v h; simp at h

/-- **`cst_to_ast` is natural in the positions** -/
theorem cstToAst_map {t : CTree} {v} (h : cstToAst t = some v) : cstToAst (treeMap ρ t) = some (fileMap ρ v) := by
  fun_cases cstToAst t
  · simp only [cstToAst, Option.map_eq_some_iff] at h
    obtain ⟨a, ha, rfl⟩ := h
    simp [treeMap, treeMapL, cstToAst, itemsOf_map ρ ha, fileMap]
  · simp_all [cstToAst]

/-! ### the parse loop is natural: it looks at token kinds only -/

def cfgMap (c : Cfg Nat Token) : Cfg Nat Token :=
  ⟨c.states, c.nodes.map (treeMap ρ), c.rest.map (leafMap ρ)⟩

def resMap : StepRes Nat Token → StepRes Nat Token
  | .ok t => .ok (treeMap ρ t)
  | .err => .err
  | .panic => .panic
  | .cont c => .cont (cfgMap ρ c)

theorem la_map (l : List FTok) : la (l.map (leafMap ρ)) = la l := by
  cases l with
  | nil => rfl
  | cons x xs => simp [la, leafMap]

theorem step_map (g : Grammar Nat Nat) (A : Auto Nat Nat) (c : Cfg Nat Token) :
    step g A (cfgMap ρ c) = resMap ρ (step g A c) := by
  obtain ⟨states, nodes, rest⟩ := c
  unfold step
  simp only [cfgMap, la_map]
  cases states with
  | nil => rfl
  | cons top sts =>
    simp only
    cases hact : A.action top (la rest) with
    | shift s =>
      simp only
      cases rest with
      | nil => rfl
      | cons tok rest' => simp [resMap, cfgMap, treeMap]
    | reduce r =>
      simp only
      cases hr : g.rules[r]? with
      | none => rfl
      | some rule =>
        simp only [List.length_map]
        split
        · rfl
        · cases hd : (top :: sts).drop rule.rhs.length with
          | nil => rfl
          | cons t' st' =>
            simp only
            cases hg : A.goto t' rule.lhs with
            | none => rfl
            | some s' =>
              simp only [resMap, cfgMap, List.map_cons, treeMap, treeMapL_eq, List.map_reverse, List.map_take,
                List.map_drop]
    | accept =>
      simp only
      cases nodes with
      | nil => rfl
      | cons t _ => rfl
    | err => rfl

theorem runCfg_map (g : Grammar Nat Nat) (A : Auto Nat Nat) :
    ∀ (fuel : Nat) (c : Cfg Nat Token),
      runCfg g A fuel (cfgMap ρ c) = (runCfg g A fuel c).map fun rc => (resMap ρ rc.1, cfgMap ρ rc.2) := by
  intro fuel
  induction fuel with
  | zero => intro c; rfl
  | succ n ih =>
    intro c
    simp only [runCfg, step_map]
    cases hs : step g A c with
    | cont c' => simp only [resMap]; exact ih c'
    | ok t => rfl
    | err => rfl
    | panic => rfl

def outMap : ParseOut → ParseOut
  | .ok t => .ok (treeMap ρ t)
  | .unexpected idx => .unexpected idx
  | .panic => .panic

/-- **`parser::parse` is natural in the positions** (it reads token kinds only; the offending index is the same) -/
theorem parse_map (toks : List Token) (fuel : Nat) :
    parse (toks.map (tokenMap ρ)) fuel = (parse toks fuel).map (outMap ρ) := by
  unfold parse
  have e : (⟨[frontAuto.start], [], (toks.map (tokenMap ρ)).map mkTok⟩ : Cfg Nat Token) =
      cfgMap ρ ⟨[frontAuto.start], [], toks.map mkTok⟩ := by
    simp [cfgMap, List.map_map, Function.comp_def, mkTok_map]
  rw [e, runCfg_map]
  cases runCfg armG frontAuto fuel ⟨[frontAuto.start], [], toks.map mkTok⟩ with
  | none => rfl
  | some rc =>
    obtain ⟨r, cf⟩ := rc
    simp only [Option.map_some, List.length_map]
    cases r with
    | ok t => rfl
    | panic => rfl
    | cont c => rfl
    | err => simp [resMap, outMap, cfgMap]

/-! ### validation is natural: positions are copied into errors, never compared -/

def errMap : KErr → KErr
  | .lex i c => .lex (ρ i) c
  | .parse a s b => .parse (ρ a) s (ρ b)
  | .noStartSymbol => .noStartSymbol
  | .multipleStartSymbols ps => .multipleStartSymbols (ps.map ρ)
  | .noTerminalEnum => .noTerminalEnum
  | .multipleTerminalEnums ps => .multipleTerminalEnums (ps.map ρ)
  | .notUppercase p => .notUppercase (ρ p)
  | .notLowercase p => .notLowercase (ρ p)
  | .nameClash n p q => .nameClash n (ρ p) (ρ q)
  | .variantNameClash n p q => .variantNameClash n (ρ p) (ρ q)
  | .variantSeqClash syms p q => .variantSeqClash syms (ρ p) (ρ q)
  | .undefinedNonterminal n p => .undefinedNonterminal n (ρ p)
  | .undefinedTerminal n p => .undefinedTerminal n (ρ p)

def rmap {α β : Type} (g : α → β) : Res α → Res β
  | .ok a => .ok (g a)
  | .err e => .err (errMap ρ e)
  | .panic s => .panic s

theorem rmap_bind {α β α' β' : Type} (r : Res α) (f : α → Res β) (g : α → α') (f' : α' → Res β') (h : β → β')
    (hf : ∀ a, f' (g a) = rmap ρ h (f a)) : (rmap ρ g r >>= f') = rmap ρ h (r >>= f) := by
  cases r with
  | ok a => exact hf a
  | err e => rfl
  | panic s => rfl

def vNontermMap : VFile.Nonterminal → VFile.Nonterminal
  | .struct s => .struct (structMap ρ s)
  | .enum e => .enum (enumMap ρ e)
def vTermEnumMap (t : VFile.TermEnum) : VFile.TermEnum := ⟨t.attrs.map (attrMap ρ), t.name, t.variants⟩
def vFileMap (f : VFile.File) : VFile.File := ⟨f.start, vTermEnumMap ρ f.tenum, f.nonterminals.map (vNontermMap ρ)⟩
def seenMap {κ : Type} (seen : List (κ × Nat)) : List (κ × Nat) := seen.map fun x => (x.1, ρ x.2)

open Validate

theorem pathToString_map (p : List Ast.Ident) : pathToString (p.map (identMap ρ)) = pathToString p := by
  simp [pathToString, List.map_map, Function.comp_def, identMap]

theorem typeToString_map :
    (∀ t : Ast.Ty, typeToString (tyMap ρ t) = typeToString t) ∧
    (∀ ts : List Ast.Ty, typesToStrings (tysMap ρ ts) = typesToStrings ts) := by
  apply typeToString.mutual_induct
  · simp [tyMap, typeToString]
  · intro p; simp [tyMap, typeToString, pathToString_map]
  · intro callee args ih; simp [tyMap, typeToString, pathToString_map, ih]
  · simp [tysMap, typesToStrings]
  · intro t ts ih1 ih2; simp [tysMap, typesToStrings, ih1, ih2]

theorem validateUppercaseStart_map (name : Str) (pos : Nat) :
    validateUppercaseStart name (ρ pos) = rmap ρ id (validateUppercaseStart name pos) := by
  unfold validateUppercaseStart
  split
  · rfl
  · split <;> rfl

theorem assertLowercaseStart_map (name : Str) (pos : Nat) :
    assertLowercaseStart name (ρ pos) = rmap ρ id (assertLowercaseStart name pos) := by
  unfold assertLowercaseStart
  split
  · rfl
  · split <;> rfl

theorem terminals_map (f : Ast.File) : terminals (fileMap ρ f) = (terminals f).map (termEnumMap ρ) := by
  unfold terminals fileMap
  simp only [List.filterMap_map]
  induction f.items with
  | nil => rfl
  | cons x xs ih => cases x <;> simp [List.filterMap_cons, itemMap, ih]

theorem getUnvalidatedTerminalEnum_map (f : Ast.File) :
    getUnvalidatedTerminalEnum (fileMap ρ f) = rmap ρ (termEnumMap ρ) (getUnvalidatedTerminalEnum f) := by
  unfold getUnvalidatedTerminalEnum
  rw [terminals_map]
  cases terminals f with
  | nil => rfl
  | cons t ts =>
    cases ts with
    | nil => rfl
    | cons t2 ts2 =>
      simp [rmap, errMap, termEnumMap, identMap, List.map_map, Function.comp_def]

theorem validateTerminalVariants_map (vs : List Ast.TermVariant) :
    validateTerminalVariants (vs.map (termVariantMap ρ)) = rmap ρ id (validateTerminalVariants vs) := by
  induction vs with
  | nil => rfl
  | cons v vs ih =>
    simp only [List.map_cons, validateTerminalVariants, termVariantMap, termIdentMap, validateUppercaseStart_map, ih,
      (typeToString_map ρ).1]
    cases validateUppercaseStart v.name.name v.name.dpos with
    | ok _ =>
      simp only [rmap, bind, Res.bind, id]
      cases validateTerminalVariants vs <;> rfl
    | err e => rfl
    | panic s => rfl

theorem getTerminalEnum_map (f : Ast.File) :
    getTerminalEnum (fileMap ρ f) = rmap ρ (vTermEnumMap ρ) (getTerminalEnum f) := by
  unfold getTerminalEnum
  rw [getUnvalidatedTerminalEnum_map]
  cases getUnvalidatedTerminalEnum f with
  | err e => rfl
  | panic s => rfl
  | ok t =>
    simp only [rmap, bind, Res.bind, termEnumMap, identMap, validateUppercaseStart_map, validateTerminalVariants_map]
    cases validateUppercaseStart t.name.name t.name.pos with
    | err e => rfl
    | panic s => rfl
    | ok _ =>
      simp only [rmap, id]
      cases validateTerminalVariants t.variants <;> rfl

theorem lookup_seenMap {κ : Type} [BEq κ] (seen : List (κ × Nat)) (k : κ) :
    (seenMap ρ seen).lookup k = (seen.lookup k).map ρ := by
  induction seen with
  | nil => rfl
  | cons x xs ih =>
    obtain ⟨k', p⟩ := x
    simp only [seenMap, List.map_cons, List.lookup_cons]
    cases k == k' with
    | true => rfl
    | false => exact ih

theorem define_map (seen : Seen) (name : Str) (pos : Nat) :
    define (seenMap ρ seen) name (ρ pos) = rmap ρ (seenMap ρ) (define seen name pos) := by
  unfold define
  rw [lookup_seenMap]
  cases seen.lookup name with
  | none => simp [rmap, seenMap]
  | some old => rfl

theorem defineNonterminals_map : ∀ (items : List Ast.Item) (seen : Seen),
    defineNonterminals (seenMap ρ seen) (items.map (itemMap ρ)) = rmap ρ (seenMap ρ) (defineNonterminals seen items) := by
  intro items
  induction items with
  | nil => intro seen; rfl
  | cons x xs ih =>
    intro seen
    cases x with
    | start i => simp only [List.map_cons, itemMap, defineNonterminals]; exact ih seen
    | terminal t => simp only [List.map_cons, itemMap, defineNonterminals]; exact ih seen
    | struct s =>
      simp only [List.map_cons, itemMap, defineNonterminals, structMap, identMap, define_map]
      exact rmap_bind ρ _ _ _ _ _ (fun a => ih a)
    | enum e =>
      simp only [List.map_cons, itemMap, defineNonterminals, enumMap, identMap, define_map]
      exact rmap_bind ρ _ _ _ _ _ (fun a => ih a)

theorem defineTerminalVariants_map : ∀ (vs : List Ast.TermVariant) (seen : Seen),
    defineTerminalVariants (seenMap ρ seen) (vs.map (termVariantMap ρ)) =
      rmap ρ (seenMap ρ) (defineTerminalVariants seen vs) := by
  intro vs
  induction vs with
  | nil => intro seen; rfl
  | cons v vs ih =>
    intro seen
    simp only [List.map_cons, defineTerminalVariants, termVariantMap, termIdentMap, define_map]
    exact rmap_bind ρ _ _ _ _ _ (fun a => ih a)

theorem getDefinedSymbolPositions_map (f : Ast.File) :
    getDefinedSymbolPositions (fileMap ρ f) = rmap ρ (seenMap ρ) (getDefinedSymbolPositions f) := by
  unfold getDefinedSymbolPositions
  have h0 : defineNonterminals [] (fileMap ρ f).items = rmap ρ (seenMap ρ) (defineNonterminals [] f.items) :=
    defineNonterminals_map ρ f.items []
  rw [h0]
  refine rmap_bind ρ _ _ _ _ _ (fun seen => ?_)
  rw [getUnvalidatedTerminalEnum_map]
  refine rmap_bind ρ _ _ _ _ _ (fun t => ?_)
  exact defineTerminalVariants_map ρ t.variants seen

theorem filterMap_fileMap {β : Type} (F : Ast.Item → Option β) (f : Ast.File) (hF : ∀ x, F (itemMap ρ x) = F x) :
    List.filterMap F (fileMap ρ f).items = List.filterMap F f.items := by
  unfold fileMap
  simp only [List.filterMap_map]
  congr 1
  funext x
  exact hF x

theorem getDefinedSymbols_map (f : Ast.File) :
    getDefinedSymbols (fileMap ρ f) = rmap ρ id (getDefinedSymbols f) := by
  unfold getDefinedSymbols
  rw [getDefinedSymbolPositions_map]
  refine rmap_bind ρ _ _ _ _ _ (fun seen => ?_)
  rw [getUnvalidatedTerminalEnum_map, filterMap_fileMap]
  · refine rmap_bind ρ _ _ _ _ _ (fun t => ?_)
    simp [rmap, termEnumMap, List.map_map, Function.comp_def, termVariantMap, termIdentMap, pure]
  · intro x; cases x <;> rfl

theorem assertSymbolIsDefined_map (d : Defined) (s : Ast.SymId) :
    assertSymbolIsDefined d (symIdMap ρ s) = rmap ρ id (assertSymbolIsDefined d s) := by
  cases s with
  | n i => simp only [symIdMap, identMap, assertSymbolIsDefined]; split <;> rfl
  | t i => simp only [symIdMap, termIdentMap, assertSymbolIsDefined]; split <;> rfl

theorem assertNamedFields_map (d : Defined) (fs : List Ast.NamedField) :
    assertNamedFields d (fs.map (namedFieldMap ρ)) = rmap ρ id (assertNamedFields d fs) := by
  induction fs with
  | nil => rfl
  | cons f fs ih =>
    simp only [List.map_cons, assertNamedFields, namedFieldMap, assertSymbolIsDefined_map, ih]
    cases hn : f.name with
    | us p =>
      simp only [fieldNameMap, pure, bind, Res.bind]
      cases assertSymbolIsDefined d f.sym with
      | ok _ => simp only [rmap, id]
      | err e => rfl
      | panic s => rfl
    | id i =>
      simp only [fieldNameMap, identMap, assertLowercaseStart_map, bind, Res.bind]
      cases assertLowercaseStart i.name i.pos with
      | ok _ =>
        simp only [rmap]
        cases assertSymbolIsDefined d f.sym with
        | ok _ => simp only [rmap, id]
        | err e => rfl
        | panic s => rfl
      | err e => rfl
      | panic s => rfl

theorem assertTupleFields_map (d : Defined) (fs : List Ast.TupleField) :
    assertTupleFields d (fs.map (tupleFieldMap ρ)) = rmap ρ id (assertTupleFields d fs) := by
  induction fs with
  | nil => rfl
  | cons f fs ih =>
    have hs : (tupleFieldMap ρ f).sym = symIdMap ρ f.sym := by cases f <;> rfl
    simp only [List.map_cons, assertTupleFields, hs, assertSymbolIsDefined_map, ih, bind, Res.bind]
    cases assertSymbolIsDefined d f.sym with
    | ok _ => simp only [rmap, id]
    | err e => rfl
    | panic s => rfl

theorem assertFieldsetIsValid_map (d : Defined) (fs : Ast.Fieldset) :
    assertFieldsetIsValid d (fieldsetMap ρ fs) = rmap ρ id (assertFieldsetIsValid d fs) := by
  cases fs with
  | empty => rfl
  | named l => exact assertNamedFields_map ρ d l
  | tuple l => exact assertTupleFields_map ρ d l

theorem assertUniqueNames_map : ∀ (vs : List Ast.Variant) (seen : Seen),
    assertUniqueNames (seenMap ρ seen) (vs.map (variantMap ρ)) = rmap ρ id (assertUniqueNames seen vs) := by
  intro vs
  induction vs with
  | nil => intro seen; rfl
  | cons v vs ih =>
    intro seen
    simp only [List.map_cons, assertUniqueNames, variantMap, identMap, lookup_seenMap]
    cases seen.lookup v.name.name with
    | some old => rfl
    | none =>
      simp only [Option.map_none]
      have := ih (seen ++ [(v.name.name, v.name.pos)])
      simpa [seenMap] using this

theorem toSym_map (s : Ast.SymId) : (symIdMap ρ s).toSym = s.toSym := by cases s <;> rfl

theorem syms_map (fs : Ast.Fieldset) : (fieldsetMap ρ fs).syms = fs.syms.map (symIdMap ρ) := by
  cases fs with
  | empty => rfl
  | named l => simp [fieldsetMap, Ast.Fieldset.syms, List.map_map, Function.comp_def, namedFieldMap]
  | tuple l =>
    simp only [fieldsetMap, Ast.Fieldset.syms, List.map_map, Function.comp_def]
    apply List.map_congr_left
    intro f _
    cases f <;> rfl

theorem fieldSymbolSequence_map (v : Ast.Variant) : fieldSymbolSequence (variantMap ρ v) = fieldSymbolSequence v := by
  simp [fieldSymbolSequence, variantMap, syms_map, List.map_map, Function.comp_def, toSym_map]

theorem assertUniqueSeqs_map : ∀ (vs : List Ast.Variant) (seen : List (List Sym' × Nat)),
    assertUniqueSeqs (seenMap ρ seen) (vs.map (variantMap ρ)) = rmap ρ id (assertUniqueSeqs seen vs) := by
  intro vs
  induction vs with
  | nil => intro seen; rfl
  | cons v vs ih =>
    intro seen
    simp only [List.map_cons, assertUniqueSeqs, fieldSymbolSequence_map, lookup_seenMap]
    cases seen.lookup (fieldSymbolSequence v) with
    | some old => simp [rmap, errMap, variantMap, identMap]
    | none =>
      simp only [Option.map_none]
      have := ih (seen ++ [(fieldSymbolSequence v, v.name.pos)])
      simpa [seenMap, variantMap, identMap] using this

theorem assertEachVariant_map (d : Defined) (vs : List Ast.Variant) :
    assertEachVariant d (vs.map (variantMap ρ)) = rmap ρ id (assertEachVariant d vs) := by
  induction vs with
  | nil => rfl
  | cons v vs ih =>
    simp only [List.map_cons, assertEachVariant, variantMap, identMap, validateUppercaseStart_map,
      assertFieldsetIsValid_map, ih, bind, Res.bind]
    cases validateUppercaseStart v.name.name v.name.pos with
    | ok _ =>
      simp only [rmap]
      cases assertFieldsetIsValid d v.fieldset with
      | ok _ => simp only [rmap, id]
      | err e => rfl
      | panic s => rfl
    | err e => rfl
    | panic s => rfl

theorem validateNonterminals_map (d : Defined) (items : List Ast.Item) :
    validateNonterminals d (items.map (itemMap ρ)) =
      rmap ρ (List.map (vNontermMap ρ)) (validateNonterminals d items) := by
  induction items with
  | nil => rfl
  | cons x xs ih =>
    cases x with
    | start i => simp only [List.map_cons, itemMap, validateNonterminals]; exact ih
    | terminal t => simp only [List.map_cons, itemMap, validateNonterminals]; exact ih
    | struct s =>
      simp only [List.map_cons, itemMap, validateNonterminals, structMap, identMap, validateUppercaseStart_map,
        assertFieldsetIsValid_map, ih, bind, Res.bind]
      cases validateUppercaseStart s.name.name s.name.pos with
      | ok _ =>
        simp only [rmap]
        cases assertFieldsetIsValid d s.fieldset with
        | ok _ =>
          simp only [rmap]
          cases validateNonterminals d xs with
          | ok r => simp [rmap, pure, vNontermMap, structMap, identMap]
          | err e => rfl
          | panic s => rfl
        | err e => rfl
        | panic s => rfl
      | err e => rfl
      | panic s => rfl
    | enum e =>
      have h1 := assertUniqueNames_map ρ e.variants []
      have h2 := assertUniqueSeqs_map ρ e.variants []
      simp only [seenMap, List.map_nil] at h1 h2
      simp only [List.map_cons, itemMap, validateNonterminals, enumMap, identMap, validateUppercaseStart_map,
        h1, h2, assertEachVariant_map, ih, bind, Res.bind]
      cases validateUppercaseStart e.name.name e.name.pos with
      | ok _ =>
        simp only [rmap]
        cases assertUniqueNames [] e.variants with
        | ok _ =>
          simp only [rmap]
          cases assertUniqueSeqs [] e.variants with
          | ok _ =>
            simp only [rmap]
            cases assertEachVariant d e.variants with
            | ok _ =>
              simp only [rmap]
              cases validateNonterminals d xs with
              | ok r => simp [rmap, pure, vNontermMap, enumMap, identMap]
              | err e => rfl
              | panic s => rfl
            | err e => rfl
            | panic s => rfl
          | err e => rfl
          | panic s => rfl
        | err e => rfl
        | panic s => rfl
      | err e => rfl
      | panic s => rfl

theorem getNonterminals_map (f : Ast.File) :
    getNonterminals (fileMap ρ f) = rmap ρ (List.map (vNontermMap ρ)) (getNonterminals f) := by
  unfold getNonterminals
  rw [getDefinedSymbols_map]
  refine rmap_bind ρ _ _ _ _ _ (fun d => ?_)
  exact validateNonterminals_map ρ d f.items

theorem starts_map (f : Ast.File) : starts (fileMap ρ f) = (starts f).map (identMap ρ) := by
  unfold starts fileMap
  simp only [List.filterMap_map]
  induction f.items with
  | nil => rfl
  | cons x xs ih => cases x <;> simp [List.filterMap_cons, itemMap, ih]

theorem vname_map (n : VFile.Nonterminal) : (vNontermMap ρ n).name = n.name := by cases n <;> rfl

theorem getStartSymbolName_map (f : Ast.File) (nts : List VFile.Nonterminal) :
    getStartSymbolName (fileMap ρ f) (nts.map (vNontermMap ρ)) = rmap ρ id (getStartSymbolName f nts) := by
  unfold getStartSymbolName
  rw [starts_map]
  cases starts f with
  | nil => rfl
  | cons s ss =>
    cases ss with
    | nil =>
      simp only [List.map_cons, List.map_nil, identMap, List.any_map, Function.comp_def, vname_map]
      split <;> rfl
    | cons s2 ss2 => simp [rmap, errMap, identMap, List.map_map, Function.comp_def]

theorem assertNoTopLevelNameClashes_map (f : Ast.File) :
    assertNoTopLevelNameClashes (fileMap ρ f) = rmap ρ id (assertNoTopLevelNameClashes f) := by
  unfold assertNoTopLevelNameClashes
  rw [getDefinedSymbolPositions_map]
  refine rmap_bind ρ _ _ _ _ _ (fun seen => ?_)
  rw [getUnvalidatedTerminalEnum_map]
  refine rmap_bind ρ _ _ _ _ _ (fun t => ?_)
  simp only [termEnumMap, identMap, define_map]
  refine rmap_bind ρ _ _ _ _ _ (fun _ => ?_)
  rfl

/-- **`validate_ast` is natural in the positions**: the same verdict; the validated file relabelled; an error of the
same variant, with the same names, carrying the relabelled positions -/
theorem validateAst_map (f : Ast.File) :
    validateAst (fileMap ρ f) = rmap ρ (vFileMap ρ) (validateAst f) := by
  unfold validateAst
  rw [getTerminalEnum_map]
  refine rmap_bind ρ _ _ _ _ _ (fun tenum => ?_)
  rw [getNonterminals_map]
  refine rmap_bind ρ _ _ _ _ _ (fun nts => ?_)
  rw [getStartSymbolName_map]
  refine rmap_bind ρ _ _ _ _ _ (fun start => ?_)
  rw [assertNoTopLevelNameClashes_map]
  refine rmap_bind ρ _ _ _ _ _ (fun _ => ?_)
  rfl

/-! ### after validation nothing looks at a position -/

open Emit

def ruleMap (r : VFile.Rule) : VFile.Rule := ⟨r.ctor, fieldsetMap ρ r.fieldset⟩

theorem rules_map (f : VFile.File) : (vFileMap ρ f).rules = f.rules.map (ruleMap ρ) := by
  unfold VFile.File.rules vFileMap
  simp only [List.flatMap_map, List.map_flatMap]
  congr 1
  funext n
  cases n with
  | struct s => simp [vNontermMap, structMap, identMap, ruleMap]
  | enum e => simp [vNontermMap, enumMap, identMap, ruleMap, variantMap, List.map_map, Function.comp_def]

theorem codeSym_map (ts ns : List Str) (s : Ast.SymId) : Encode.codeSym ts ns (symIdMap ρ s) = Encode.codeSym ts ns s := by
  cases s <;> rfl

theorem codeRule_map (ts ns : List Str) (r : VFile.Rule) : Encode.codeRule ts ns (ruleMap ρ r) = Encode.codeRule ts ns r := by
  unfold Encode.codeRule ruleMap
  simp only [syms_map, List.mapM_map, Function.comp_def, codeSym_map]

theorem nonterminal_names_map (f : VFile.File) :
    (vFileMap ρ f).nonterminals.map (·.name) = f.nonterminals.map (·.name) := by
  simp [vFileMap, List.map_map, Function.comp_def, vname_map]

/-- the coded grammar does not depend on the positions -/
theorem encode_map (f : VFile.File) : Encode.encode (vFileMap ρ f) = Encode.encode f := by
  unfold Encode.encode
  rw [nonterminal_names_map, rules_map]
  simp only [List.mapM_map, Function.comp_def, codeRule_map]
  rfl

theorem fieldType_map (te : VFile.TermEnum) (s : Ast.SymId) :
    fieldType (vTermEnumMap ρ te) (symIdMap ρ s) = fieldType te s := by
  cases s <;> rfl

theorem namedFieldTypes_map (te : VFile.TermEnum) (fs : List Ast.NamedField) :
    namedFieldTypes (vTermEnumMap ρ te) (fs.map (namedFieldMap ρ)) = namedFieldTypes te fs := by
  induction fs with
  | nil => rfl
  | cons f fs ih =>
    simp only [List.map_cons, namedFieldTypes, namedFieldMap]
    cases hn : f.name with
    | us p => simp only [fieldNameMap]; exact ih
    | id i => simp only [fieldNameMap, identMap, fieldType_map, ih]

theorem tupleFieldTypes_map (te : VFile.TermEnum) (fs : List Ast.TupleField) :
    tupleFieldTypes (vTermEnumMap ρ te) (fs.map (tupleFieldMap ρ)) = tupleFieldTypes te fs := by
  induction fs with
  | nil => rfl
  | cons f fs ih =>
    cases f with
    | skipped s => simp only [List.map_cons, tupleFieldMap, tupleFieldTypes]; exact ih
    | used s => simp only [List.map_cons, tupleFieldMap, tupleFieldTypes, fieldType_map, ih]

theorem namedIsUsed_map (f : Ast.NamedField) : (namedFieldMap ρ f).isUsed = f.isUsed := by
  unfold Ast.NamedField.isUsed namedFieldMap
  cases f.name <;> rfl

theorem tupleIsUsed_map (f : Ast.TupleField) : (tupleFieldMap ρ f).isUsed = f.isUsed := by cases f <;> rfl

theorem bodyOf_map (te : VFile.TermEnum) (fs : Ast.Fieldset) :
    bodyOf (vTermEnumMap ρ te) (fieldsetMap ρ fs) = bodyOf te fs := by
  cases fs with
  | empty => rfl
  | named l =>
    simp only [fieldsetMap, bodyOf, List.any_map, Function.comp_def, namedIsUsed_map, namedFieldTypes_map]
  | tuple l =>
    simp only [fieldsetMap, bodyOf, List.any_map, Function.comp_def, tupleIsUsed_map, tupleFieldTypes_map]

theorem attrSrcs_map (as : List Ast.Attr) : attrSrcs (as.map (attrMap ρ)) = attrSrcs as := by
  simp [attrSrcs, List.map_map, Function.comp_def, attrMap]

theorem typeDefOf_map (te : VFile.TermEnum) (n : VFile.Nonterminal) :
    typeDefOf (vTermEnumMap ρ te) (vNontermMap ρ n) = typeDefOf te n := by
  cases n with
  | struct s => simp only [vNontermMap, structMap, typeDefOf, bodyOf_map, attrSrcs_map, identMap]
  | enum e =>
    simp only [vNontermMap, enumMap, typeDefOf, attrSrcs_map, identMap, List.mapM_map, Function.comp_def, variantMap,
      bodyOf_map]

theorem reduceFnOf_map (ms : List (Str × Str × Str)) (idx : Nat) (r : VFile.Rule) :
    reduceFnOf ms idx (ruleMap ρ r) = reduceFnOf ms idx r := by
  obtain ⟨ctor, fs⟩ := r
  cases fs with
  | empty => rfl
  | named l =>
    simp only [ruleMap, fieldsetMap, reduceFnOf, List.zipIdx_map, List.map_map, List.filterMap_map, Function.comp_def,
      List.any_map, namedIsUsed_map]
    have hx : ∀ x : Ast.NamedField × Nat, (Prod.map (namedFieldMap ρ) id x).snd = x.snd := fun x => rfl
    simp only [hx]
    congr 1
    · congr 2
      funext x
      obtain ⟨⟨nm, sy⟩, i⟩ := x
      cases nm <;> cases sy <;> rfl
    · funext children
      congr 3
      · congr 1
        congr 1
        funext x
        obtain ⟨⟨nm, sy⟩, i⟩ := x
        cases nm <;> rfl
  | tuple l =>
    simp only [ruleMap, fieldsetMap, reduceFnOf, List.zipIdx_map, List.map_map, List.filterMap_map, Function.comp_def,
      List.any_map, tupleIsUsed_map]
    have hx : ∀ x : Ast.TupleField × Nat, (Prod.map (tupleFieldMap ρ) id x).snd = x.snd := fun x => rfl
    simp only [hx]
    congr 1
    · congr 2
      funext x
      obtain ⟨f, i⟩ := x
      cases f with
      | skipped s => rfl
      | used s => cases s <;> rfl
    · funext children
      congr 3
      · congr 1
        congr 1
        funext x
        obtain ⟨f, i⟩ := x
        cases f <;> rfl

theorem definedIdentifiers_map (f : VFile.File) : (vFileMap ρ f).definedIdentifiers = f.definedIdentifiers := by
  unfold VFile.File.definedIdentifiers
  rw [nonterminal_names_map]
  rfl

/-- the emitted module does not depend on the positions -/
theorem moduleOf_map (f : VFile.File) (enc : Encode.Enc) (t : Table.Table) (sha : Str) :
    moduleOf (vFileMap ρ f) enc t sha = moduleOf f enc t sha := by
  unfold moduleOf
  rw [definedIdentifiers_map, rules_map, nonterminal_names_map]
  have h1 : (vFileMap ρ f).nonterminals.mapM (typeDefOf (vFileMap ρ f).tenum) = f.nonterminals.mapM (typeDefOf f.tenum) := by
    simp only [vFileMap, List.mapM_map, Function.comp_def, typeDefOf_map]
  have h2 : ((f.rules.map (ruleMap ρ)).zipIdx.map fun (r, i) => reduceFnOf (methodNames (vFileMap ρ f).tenum) i r) =
      (f.rules.zipIdx.map fun (r, i) => reduceFnOf (methodNames f.tenum) i r) := by
    simp only [List.zipIdx_map, List.map_map, Function.comp_def]
    apply List.map_congr_left
    intro ⟨r, i⟩ _
    exact reduceFnOf_map ρ _ i r
  have hms : methodNames (vFileMap ρ f).tenum = methodNames f.tenum := rfl
  rw [hms] at h2
  have ha : attrSrcs (vFileMap ρ f).tenum.attrs = attrSrcs f.tenum.attrs := attrSrcs_map ρ _
  simp only [h1, hms, h2, ha, List.length_map]
  rfl

end Relabel
end KikiVerif
