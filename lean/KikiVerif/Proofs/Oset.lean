/-
Lemmas about the `Oset` model: the sortedness invariant, refinement to finite
sets, extensionality.  For any element type with a lawful total order
(`Std.TransOrd`, `Std.LawfulEqOrd`).
-/
import KikiVerif.Model.Oset

set_option linter.unusedSectionVars false
set_option linter.unusedSimpArgs false

namespace KikiVerif
namespace Oset
open Std

variable {α : Type} [Ord α] [TransOrd α] [LawfulEqOrd α]

/-- strictly ascending -/
def Sorted (l : List α) : Prop := l.Pairwise (fun a b => compare a b = .lt)

/-- weakly ascending -/
def SortedLe (l : List α) : Prop := l.Pairwise (fun a b => leB a b = true)

omit [LawfulEqOrd α] in
theorem lt_irrefl' (a : α) : compare a a ≠ .lt := by
  have : compare a a = .eq := ReflCmp.compare_self
  rw [this]; simp

omit [LawfulEqOrd α] in
theorem gt_of_lt {a b : α} (h : compare a b = .lt) : compare b a = .gt := by
  rw [OrientedCmp.eq_swap (cmp := compare) (a := b) (b := a), h]; rfl

omit [LawfulEqOrd α] in
theorem lt_of_gt {a b : α} (h : compare a b = .gt) : compare b a = .lt := by
  rw [OrientedCmp.eq_swap (cmp := compare) (a := b) (b := a), h]; rfl

omit [LawfulEqOrd α] in
theorem Sorted.not_mem_of_lt {x y : α} {ys : List α} (h : Sorted (y :: ys)) (hx : compare x y = .lt) :
    x ∉ y :: ys := by
  intro hm
  rcases List.mem_cons.mp hm with rfl | hm
  · exact lt_irrefl' _ hx
  · have := (List.pairwise_cons.mp h).1 x hm
    have h2 : compare x x = .lt := TransCmp.lt_trans hx this
    exact lt_irrefl' _ h2

/-! ### search -/

omit [TransOrd α] [LawfulEqOrd α] in
theorem search_shift (x : α) (l : List α) (i : Nat) :
    search x l i = ((search x l 0).1, (search x l 0).2 + i) := by
  induction l generalizing i with
  | nil => simp [search]
  | cons y ys ih =>
    simp only [search]
    cases compare y x with
    | lt => rw [ih (i + 1), ih (0 + 1)]; simp; omega
    | eq => simp
    | gt => simp

theorem search_found (x : α) (l : List α) (i : Nat) (h : Sorted l) :
    (search x l i).1 = true ↔ x ∈ l := by
  induction l generalizing i with
  | nil => simp [search]
  | cons y ys ih =>
    have hys : Sorted ys := (List.pairwise_cons.mp h).2
    simp only [search]
    cases hc : compare y x with
    | lt =>
      simp only
      rw [ih (i + 1) hys]
      constructor
      · exact List.mem_cons_of_mem _
      · intro hm
        rcases List.mem_cons.mp hm with rfl | hm
        · exact absurd hc (lt_irrefl' _)
        · exact hm
    | eq =>
      have : y = x := LawfulEqCmp.eq_of_compare hc
      simp [this]
    | gt =>
      simp only
      constructor
      · intro h'; cases h'
      · intro hm
        exact absurd hm (Sorted.not_mem_of_lt h (lt_of_gt hc))

omit [LawfulEqOrd α] in
/-- where `search` says `Err(k)`: everything before `k` is smaller, everything from `k` on is larger -/
theorem search_split (x : α) (l : List α) (k : Nat) (h : Sorted l) (hs : search x l 0 = (false, k)) :
    k ≤ l.length ∧ (∀ a ∈ l.take k, compare a x = .lt) ∧ (∀ b ∈ l.drop k, compare x b = .lt) := by
  induction l generalizing k with
  | nil =>
    simp [search] at hs; subst hs; simp
  | cons y ys ih =>
    have hys : Sorted ys := (List.pairwise_cons.mp h).2
    simp only [search] at hs
    cases hc : compare y x with
    | lt =>
      rw [hc] at hs
      simp only at hs
      rw [search_shift] at hs
      have h1 : (search x ys 0).1 = false := by
        have := congrArg Prod.fst hs; simpa using this
      have h2 : (search x ys 0).2 + 1 = k := by
        have := congrArg Prod.snd hs; simpa using this
      obtain ⟨hle, hlt, hgt⟩ := ih (search x ys 0).2 hys (by rw [← h1])
      subst h2
      refine ⟨by simp; omega, ?_, ?_⟩
      · intro a ha
        simp only [List.take_succ_cons, List.mem_cons] at ha
        rcases ha with rfl | ha
        · exact hc
        · exact hlt a ha
      · intro b hb
        simp only [List.drop_succ_cons] at hb
        exact hgt b hb
    | eq => rw [hc] at hs; simp at hs
    | gt =>
      rw [hc] at hs
      simp only at hs
      have : k = 0 := by have := congrArg Prod.snd hs; simpa using this.symm
      subst this
      refine ⟨by simp, by simp, ?_⟩
      intro b hb
      simp only [List.drop_zero, List.mem_cons] at hb
      rcases hb with rfl | hb
      · exact lt_of_gt hc
      · exact TransCmp.lt_trans (lt_of_gt hc) ((List.pairwise_cons.mp h).1 b hb)

/-! ### insert / contains -/

theorem contains_iff (s : Oset α) (x : α) (h : Sorted s.raw) : s.contains x = true ↔ x ∈ s.raw := by
  unfold contains; exact search_found x s.raw 0 h

theorem insert_sorted (s : Oset α) (x : α) (h : Sorted s.raw) : Sorted (s.insert x).raw := by
  unfold insert
  cases hs : search x s.raw 0 with
  | mk b k =>
    cases b with
    | true => exact h
    | false =>
      obtain ⟨hle, hlt, hgt⟩ := search_split x s.raw k h hs
      simp only [insertAt]
      have hsplit : s.raw = s.raw.take k ++ s.raw.drop k := (List.take_append_drop k s.raw).symm
      have h' : Sorted (s.raw.take k ++ s.raw.drop k) := by rw [← hsplit]; exact h
      obtain ⟨h1, h2, h3⟩ := List.pairwise_append.mp h'
      refine List.pairwise_append.mpr ⟨h1, List.pairwise_cons.mpr ⟨hgt, h2⟩, ?_⟩
      intro a ha b hb
      rcases List.mem_cons.mp hb with rfl | hb
      · exact hlt a ha
      · exact h3 a ha b hb

theorem mem_insert (s : Oset α) (x y : α) (h : Sorted s.raw) :
    y ∈ (s.insert x).raw ↔ y = x ∨ y ∈ s.raw := by
  unfold insert
  cases hs : search x s.raw 0 with
  | mk b k =>
    cases b with
    | true =>
      have hx : x ∈ s.raw := (search_found x s.raw 0 h).mp (by rw [hs])
      simp only
      constructor
      · exact Or.inr
      · rintro (rfl | hm)
        · exact hx
        · exact hm
    | false =>
      simp only [insertAt, List.mem_append, List.mem_cons]
      have hsplit : ∀ z, z ∈ s.raw ↔ z ∈ s.raw.take k ∨ z ∈ s.raw.drop k := by
        intro z
        conv => lhs; rw [← List.take_append_drop k s.raw]
        exact List.mem_append
      rw [hsplit y]
      constructor
      · rintro (h1 | rfl | h1)
        · exact Or.inr (Or.inl h1)
        · exact Or.inl rfl
        · exact Or.inr (Or.inr h1)
      · rintro (rfl | h1 | h1)
        · exact Or.inr (Or.inl rfl)
        · exact Or.inl h1
        · exact Or.inr (Or.inr h1)

/-! ### sort + dedup -/

omit [LawfulEqOrd α] in
theorem leB_trans (a b c : α) (h1 : leB a b = true) (h2 : leB b c = true) : leB a c = true := by
  unfold leB at *
  have e : ∀ (o : Ordering), (o != .gt) = o.isLE := by intro o; cases o <;> rfl
  rw [e] at *
  exact TransCmp.isLE_trans h1 h2

omit [LawfulEqOrd α] in
theorem leB_total (a b : α) : (leB a b || leB b a) = true := by
  unfold leB
  cases h : compare a b with
  | lt => simp
  | eq => simp
  | gt => have := lt_of_gt h; simp [this]

omit [LawfulEqOrd α] in
theorem mergeSort_sortedLe (l : List α) : SortedLe (l.mergeSort leB) :=
  List.pairwise_mergeSort leB_trans leB_total l

theorem mem_dedupAdj (l : List α) (x : α) : x ∈ dedupAdj l ↔ x ∈ l := by
  induction l using dedupAdj.induct with
  | case1 => simp [dedupAdj]
  | case2 y => simp [dedupAdj]
  | case3 a b rest hc ih =>
    have hab : a = b := by simpa using hc
    simp only [dedupAdj, hc, if_true]
    rw [ih]; subst hab; simp
  | case4 a b rest hc ih =>
    simp only [dedupAdj, hc]
    simp only [Bool.false_eq_true, if_false, List.mem_cons]
    rw [ih]; simp

theorem dedupAdj_sorted (l : List α) (h : SortedLe l) : Sorted (dedupAdj l) := by
  induction l using dedupAdj.induct with
  | case1 => simp [dedupAdj, Sorted]
  | case2 y => simp [dedupAdj, Sorted]
  | case3 a b rest hc ih =>
    simp only [dedupAdj, hc, if_true]
    exact ih (List.pairwise_cons.mp h).2
  | case4 a b rest hc ih =>
    simp only [dedupAdj, hc]
    simp only [Bool.false_eq_true, if_false]
    have htl := (List.pairwise_cons.mp h).2
    refine List.pairwise_cons.mpr ⟨?_, ih htl⟩
    intro z hz
    have hz' : z ∈ b :: rest := (mem_dedupAdj _ _).mp hz
    have haz : leB a z = true := (List.pairwise_cons.mp h).1 z hz'
    have hab : leB a b = true := (List.pairwise_cons.mp h).1 b (List.mem_cons_self ..)
    -- compare a z ≠ gt; show ≠ eq
    cases hcz : compare a z with
    | lt => rfl
    | gt => simp [leB, hcz] at haz
    | eq =>
      exfalso
      have e : a = z := LawfulEqCmp.eq_of_compare hcz
      subst e
      -- b ≤ a (since a = z ∈ b :: rest, sorted) and a ≤ b, so a = b
      rcases List.mem_cons.mp hz' with e | hm
      · subst e; simp at hc
      · have hba : leB b a = true := (List.pairwise_cons.mp htl).1 a hm
        cases hcab : compare a b with
        | eq => simp [hcab] at hc
        | gt => simp [leB, hcab] at hab
        | lt => have := gt_of_lt hcab; simp [leB, this] at hba

theorem ofList_sorted (l : List α) : Sorted (ofList l).raw :=
  dedupAdj_sorted _ (mergeSort_sortedLe l)

theorem mem_ofList (l : List α) (x : α) : x ∈ (ofList l).raw ↔ x ∈ l := by
  unfold ofList; rw [mem_dedupAdj, List.mem_mergeSort]

theorem extend_sorted (s : Oset α) (l : List α) : Sorted (s.extend l).raw :=
  dedupAdj_sorted _ (mergeSort_sortedLe _)

theorem mem_extend (s : Oset α) (l : List α) (x : α) : x ∈ (s.extend l).raw ↔ x ∈ s.raw ∨ x ∈ l := by
  unfold extend; rw [mem_dedupAdj, List.mem_mergeSort, List.mem_append]

/-! ### extensionality -/

omit [LawfulEqOrd α] in
theorem Sorted.head_le {x : α} {xs : List α} (h : Sorted (x :: xs)) {z : α} (hz : z ∈ x :: xs) :
    compare z x ≠ .lt := by
  intro hlt
  exact Sorted.not_mem_of_lt h hlt hz

theorem sorted_ext : ∀ (a b : List α), Sorted a → Sorted b → (∀ x, x ∈ a ↔ x ∈ b) → a = b := by
  intro a
  induction a with
  | nil =>
    intro b _ _ h
    cases b with
    | nil => rfl
    | cons y ys => exact absurd ((h y).mpr (List.mem_cons_self ..)) (by simp)
  | cons x xs ih =>
    intro b ha hb h
    cases b with
    | nil => exact absurd ((h x).mp (List.mem_cons_self ..)) (by simp)
    | cons y ys =>
      have hxy : x = y := by
        have h1 : compare x y ≠ .lt := Sorted.head_le hb ((h x).mp (List.mem_cons_self ..))
        have h2 : compare y x ≠ .lt := Sorted.head_le ha ((h y).mpr (List.mem_cons_self ..))
        cases hc : compare x y with
        | lt => exact absurd hc h1
        | eq => exact LawfulEqCmp.eq_of_compare hc
        | gt => exact absurd (lt_of_gt hc) h2
      subst hxy
      congr 1
      apply ih ys (List.pairwise_cons.mp ha).2 (List.pairwise_cons.mp hb).2
      intro z
      have hxn : x ∉ xs := fun hm => lt_irrefl' x ((List.pairwise_cons.mp ha).1 x hm)
      have hyn : x ∉ ys := fun hm => lt_irrefl' x ((List.pairwise_cons.mp hb).1 x hm)
      constructor
      · intro hz
        rcases List.mem_cons.mp ((h z).mp (List.mem_cons_of_mem _ hz)) with rfl | h'
        · exact absurd hz hxn
        · exact h'
      · intro hz
        rcases List.mem_cons.mp ((h z).mpr (List.mem_cons_of_mem _ hz)) with rfl | h'
        · exact absurd hz hyn
        · exact h'

omit [LawfulEqOrd α] in
theorem Sorted.nodup {l : List α} (h : Sorted l) : l.Nodup := by
  unfold Sorted at h
  refine List.Pairwise.imp ?_ h
  intro a b hab e
  subst e
  exact lt_irrefl' _ hab

end Oset
end KikiVerif
