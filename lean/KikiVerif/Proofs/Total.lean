/-
Termination of `generate` (the model `Generate.stages`): the front-end parse loop stops on every token
sequence (`Proofs/HaltFront`) and the generator loops stop by `Proofs/TermBuild`.  So with enough fuel the
pipeline never ends in `timeout`; with `Pipeline.stages_no_panic` it always ends in a result or an error.
-/
import KikiVerif.Proofs.HaltFront
import KikiVerif.Proofs.Pipeline
import KikiVerif.Proofs.TermBuild

set_option linter.unusedSimpArgs false
set_option linter.unusedVariables false

namespace KikiVerif
namespace HaltFront
open LR

/-- **`generate` terminates**: for every source text there is an amount of fuel from which on the pipeline never
stops for lack of fuel, in any of its loops -/
theorem stages_no_timeout (src sha : Str) :
    ∃ F, ∀ fuel, F ≤ fuel → ∀ site, (Generate.stages src sha fuel).stop ≠ .timeout site := by
  rcases C08.C08_tokenize_total src with ⟨toks, htok⟩ | ⟨j, c, htok⟩
  case inr =>
    refine ⟨0, fun fuel _ site => ?_⟩
    unfold Generate.stages
    simp only [Id.run, bind, pure]
    rw [htok]; intro h; cases h
  obtain ⟨out0, hout0⟩ := front_parse_halts toks 0
  have hparse : ∀ fuel, parseBound toks.length ≤ fuel → FrontParse.parse toks fuel = some out0 := by
    intro fuel hf
    obtain ⟨out, ho⟩ := front_parse_halts toks (fuel - parseBound toks.length)
    have e : parseBound toks.length + (fuel - parseBound toks.length) = fuel := by omega
    rw [e] at ho
    -- the same run: more fuel does not change a finished run
    unfold FrontParse.parse at hout0 ho ⊢
    cases hr0 : runCfg FrontParse.armG FrontParse.frontAuto (parseBound toks.length + 0)
        ⟨[FrontParse.frontAuto.start], [], toks.map FrontParse.mkTok⟩ with
    | none => rw [hr0] at hout0; cases hout0
    | some r0 =>
      have := runCfg_mono _ _ _ hr0 (fuel - parseBound toks.length)
      have e2 : parseBound toks.length + 0 + (fuel - parseBound toks.length) = fuel := by omega
      rw [e2] at this
      rw [this]
      rw [hr0] at hout0
      exact hout0
  -- the fuel the generator needs, if the file gets that far
  let genNeed : Nat :=
    match out0 with
    | .ok cst =>
      match FrontParse.cstToAst cst with
      | some ast =>
        match Validate.validateAst ast with
        | .ok vf =>
          match Encode.encode vf with
          | some enc => Machine.genFuel enc.ctx
          | none => 0
        | _ => 0
      | none => 0
    | _ => 0
  refine ⟨parseBound toks.length + genNeed, fun fuel hf site => ?_⟩
  unfold Generate.stages
  simp only [Id.run, bind, pure]
  rw [htok]
  simp only
  rw [hparse fuel (by omega)]
  cases out0 with
  | panic => intro h; cases h
  | unexpected idx =>
    simp only
    cases FrontParse.unexpectedToErr src (idx.bind (toks[·]?)) <;> (intro h; cases h)
  | ok cst =>
    simp only
    cases hast : FrontParse.cstToAst cst with
    | none => intro h; cases h
    | some ast =>
      simp only
      cases hv : Validate.validateAst ast with
      | err e => intro h; cases h
      | panic s => intro h; cases h
      | ok vf =>
        simp only
        cases henc : Encode.encode vf with
        | none => intro h; cases h
        | some enc =>
          simp only
          have hneed : genNeed = Machine.genFuel enc.ctx := by
            simp only [genNeed, hast, hv, henc]
          obtain ⟨m, hm⟩ := Machine.machineOf_terminates (Encode.encode_ok henc) fuel (by omega)
          rw [hm]
          simp only
          cases Table.machineToTable enc.ctx m with
          | conflict s a b => intro h; cases h
          | panic s => intro h; cases h
          | ok t =>
            simp only
            cases Emit.moduleOf vf enc t sha <;> (intro h; cases h)

/-- **`generate` is total**: with enough fuel the pipeline ends, on every source text, in exactly one of:
emitted text, a `KikiErr`, or a table conflict -/
theorem stages_total (src sha : Str) :
    ∃ F, ∀ fuel, F ≤ fuel →
      match (Generate.stages src sha fuel).stop with
      | .done => True
      | .err _ => True
      | .conflict _ _ _ => True
      | .panic _ => False
      | .timeout _ => False := by
  obtain ⟨F, hF⟩ := stages_no_timeout src sha
  refine ⟨F, fun fuel hf => ?_⟩
  have h1 := hF fuel hf
  have h2 := Pipeline.stages_no_panic src sha fuel
  cases hs : (Generate.stages src sha fuel).stop with
  | done => trivial
  | err _ => trivial
  | conflict _ _ _ => trivial
  | panic s => exact absurd hs (h2 s)
  | timeout s => exact absurd hs (h1 s)

end HaltFront
end KikiVerif
