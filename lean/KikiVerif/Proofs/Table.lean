/-
`machine_to_table`: what a conflict report means.
-/
import KikiVerif.Model.Table

set_option linter.unusedSimpArgs false
set_option linter.unusedVariables false

namespace KikiVerif
namespace Table
open Machine
open LR (Sym Action)

/-- the parser action an item of state `s` demands, and the lookahead column it demands it on:
accept on end of input for the completed augmented item, reduce on the item's lookahead for a completed
original item, shift on the terminal after the dot -/
def demand (c : Ctx) (m : Machine) (s : Nat) (it : Item) : Option (Nat × Action) :=
  if it.rule = c.numRules then
    if it.dot = 0 then none else some (c.nT, .accept)
  else
    match c.g.rules[it.rule]? with
    | none => none
    | some r =>
      if it.dot = r.rhs.length then some (it.la, .reduce it.rule)
      else match r.rhs[it.dot]? with
        | some (.t t) => (getShiftDest m s t).map fun dest => (t, .shift dest)
        | _ => none

/-- `add_item_action_to_table` either leaves the builder alone or calls `set_action` with the item's demand -/
theorem addItemAction_cases (c : Ctx) (m : Machine) (tb : TB) (s : Nat) (it : Item) :
    (∃ site, addItemAction c m tb s it = .panic site) ∨
    (demand c m s it = none ∧ addItemAction c m tb s it = .ok tb) ∨
    (∃ col a, demand c m s it = some (col, a) ∧ addItemAction c m tb s it = setAction tb s col it a) := by
  unfold addItemAction demand
  by_cases h1 : it.rule = c.numRules
  · simp only [h1, if_true]
    by_cases h2 : it.dot = 0
    · simp [h2]
    · simp only [h2, if_false]
      exact Or.inr (Or.inr ⟨_, _, rfl, rfl⟩)
  · simp only [h1, if_false]
    cases hr : c.g.rules[it.rule]? with
    | none => exact Or.inl ⟨_, rfl⟩
    | some r =>
      simp only
      by_cases h3 : it.dot = r.rhs.length
      · simp only [h3, if_true]
        exact Or.inr (Or.inr ⟨_, _, rfl, rfl⟩)
      · simp only [h3, if_false]
        cases hs : r.rhs[it.dot]? with
        | none => exact Or.inl ⟨_, rfl⟩
        | some x =>
          cases x with
          | n b => simp
          | t t =>
            simp only
            cases hd : getShiftDest m s t with
            | none => exact Or.inl ⟨_, rfl⟩
            | some dest => exact Or.inr (Or.inr ⟨_, _, rfl, rfl⟩)

/-- every cell filled so far was demanded by an item of its state -/
def Filled (c : Ctx) (m : Machine) (tb : TB) : Prop :=
  ∀ s col it a, ((s, col), (it, a)) ∈ tb.actions →
    (∃ st, m.states[s]? = some st ∧ it ∈ st) ∧ demand c m s it = some (col, a)

/-- what a conflict report says -/
def Genuine (c : Ctx) (m : Machine) (s : Nat) (e n : Item) : Prop :=
  (∃ st, m.states[s]? = some st ∧ e ∈ st ∧ n ∈ st) ∧
  ∃ col ae an, demand c m s e = some (col, ae) ∧ demand c m s n = some (col, an) ∧ ae ≠ an

theorem lookup_mem {α β : Type} [BEq α] [LawfulBEq α] {l : List (α × β)} {k : α} {v : β}
    (h : l.lookup k = some v) : (k, v) ∈ l := by
  induction l with
  | nil => simp at h
  | cons p l ih =>
    obtain ⟨k', v'⟩ := p
    simp only [List.lookup] at h
    split at h
    · rename_i heq
      have : k = k' := by simpa using heq
      cases h; subst this; exact List.mem_cons_self ..
    · exact List.mem_cons_of_mem _ (ih h)

theorem setAction_step {c : Ctx} {m : Machine} {tb : TB} {s col : Nat} {it : Item} {a : Action} {st : State}
    (hf : Filled c m tb) (hst : m.states[s]? = some st) (hit : it ∈ st) (hd : demand c m s it = some (col, a)) :
    (∀ tb', setAction tb s col it a = .ok tb' → Filled c m tb' ∧ tb'.gotos = tb.gotos) ∧
    (∀ s' e n, setAction tb s col it a = .conflict s' e n → s' = s ∧ Genuine c m s e n) ∧
    (∀ site, setAction tb s col it a ≠ .panic site) := by
  unfold setAction
  cases hl : tb.actions.lookup (s, col) with
  | none =>
    refine ⟨?_, (by intro s' e n h; cases h), (by intro site h; cases h)⟩
    intro tb' h
    cases h
    refine ⟨?_, rfl⟩
    intro s2 col2 it2 a2 hm
    simp only [List.mem_append, List.mem_singleton] at hm
    rcases hm with hm | hm
    · exact hf s2 col2 it2 a2 hm
    · cases hm
      exact ⟨⟨st, hst, hit⟩, hd⟩
  | some ea =>
    obtain ⟨e, ea⟩ := ea
    simp only
    by_cases heq : ea = a
    · simp only [heq, if_true]
      refine ⟨?_, (by intro s' e' n h; cases h), (by intro site h; cases h)⟩
      intro tb' h; cases h; exact ⟨hf, rfl⟩
    · simp only [heq, if_false]
      refine ⟨(by intro tb' h; cases h), ?_, (by intro site h; cases h)⟩
      intro s' e' n h
      cases h
      obtain ⟨⟨st', hst', he⟩, hde⟩ := hf s col e ea (lookup_mem hl)
      rw [hst] at hst'; cases hst'
      exact ⟨rfl, ⟨st, hst, he, hit⟩, col, ea, a, hde, hd, heq⟩

theorem addStateActions_inv (c : Ctx) (m : Machine) (s : Nat) (st : State) (hst : m.states[s]? = some st) :
    ∀ (items : List Item) (tb : TB), (∀ it ∈ items, it ∈ st) → Filled c m tb →
      (∀ tb', addStateActions c m s items tb = .ok tb' → Filled c m tb') ∧
      (∀ s' e n, addStateActions c m s items tb = .conflict s' e n → Genuine c m s' e n) := by
  intro items
  induction items with
  | nil =>
    intro tb _ hf
    exact ⟨(by intro tb' h; cases h; exact hf), (by intro s' e n h; cases h)⟩
  | cons it items ih =>
    intro tb hsub hf
    have hit : it ∈ st := hsub it (List.mem_cons_self ..)
    have hsub' : ∀ x ∈ items, x ∈ st := fun x hx => hsub x (List.mem_cons_of_mem _ hx)
    simp only [addStateActions]
    rcases addItemAction_cases c m tb s it with ⟨site, hp⟩ | ⟨_, hok⟩ | ⟨col, a, hd, hset⟩
    · rw [hp]; exact ⟨(by intro tb' h; cases h), (by intro s' e n h; cases h)⟩
    · rw [hok]; exact ih tb hsub' hf
    · rw [hset]
      obtain ⟨h1, h2, h3⟩ := setAction_step hf hst hit hd
      cases hres : setAction tb s col it a with
      | ok tb1 => exact ih tb1 hsub' (h1 tb1 hres).1
      | conflict s' e n =>
        refine ⟨(by intro tb' h; cases h), ?_⟩
        intro s2 e2 n2 h
        cases h
        obtain ⟨rfl, hg⟩ := h2 s' e n hres
        exact hg
      | panic site => exact absurd hres (h3 site)

theorem addActions_inv (c : Ctx) (m : Machine) :
    ∀ (sts : List State) (i : Nat) (tb : TB), (∀ k st, sts[k]? = some st → m.states[i + k]? = some st) →
      Filled c m tb →
      (∀ tb', addActions c m sts i tb = .ok tb' → Filled c m tb') ∧
      (∀ s e n, addActions c m sts i tb = .conflict s e n → Genuine c m s e n) := by
  intro sts
  induction sts with
  | nil =>
    intro i tb _ hf
    exact ⟨(by intro tb' h; cases h; exact hf), (by intro s e n h; cases h)⟩
  | cons st sts ih =>
    intro i tb hidx hf
    have hst : m.states[i]? = some st := by simpa using hidx 0 st rfl
    have hidx' : ∀ k st', sts[k]? = some st' → m.states[i + 1 + k]? = some st' := by
      intro k st' hk
      have := hidx (k + 1) st' (by simpa using hk)
      rw [show i + (k + 1) = i + 1 + k by omega] at this
      exact this
    obtain ⟨h1, h2⟩ := addStateActions_inv c m i st hst st tb (fun _ h => h) hf
    simp only [addActions]
    cases hres : addStateActions c m i st tb with
    | ok tb1 => exact ih (i + 1) tb1 hidx' (h1 tb1 hres)
    | conflict s e n =>
      refine ⟨(by intro tb' h; cases h), ?_⟩
      intro s2 e2 n2 h; cases h
      exact h2 s e n hres
    | panic site => exact ⟨(by intro tb' h; cases h), (by intro s e n h; cases h)⟩

theorem addGotos_no_conflict : ∀ (trs : List Transition) (tb : TB) (s : Nat) (e n : Item),
    addGotos trs tb ≠ .conflict s e n := by
  intro trs
  induction trs with
  | nil => intro tb s e n h; cases h
  | cons tr trs ih =>
    intro tb s e n h
    simp only [addGotos] at h
    split at h
    · exact ih _ _ _ _ h
    · split at h
      · cases h
      · exact ih _ _ _ _ h

/-- **C11**: a table-conflict report names a state of the automaton, two items of that state, and the two
items demand different parser actions on the same lookahead column -/
theorem conflict_genuine (c : Ctx) (m : Machine) (s : Nat) (e n : Item)
    (h : machineToTable c m = .conflict s e n) : Genuine c m s e n := by
  unfold machineToTable at h
  have hinv := addActions_inv c m m.states 0 ⟨[], []⟩ (by intro k st hk; simpa using hk)
    (by intro s col it a hm; simp at hm)
  cases hres : addActions c m m.states 0 ⟨[], []⟩ with
  | conflict s' e' n' =>
    rw [hres] at h
    cases h
    exact hinv.2 s e n hres
  | panic site => rw [hres] at h; cases h
  | ok tb =>
    rw [hres] at h
    simp only at h
    cases hg : addGotos m.transitions tb with
    | conflict s' e' n' => exact absurd hg (addGotos_no_conflict _ _ _ _ _)
    | panic site => rw [hg] at h; cases h
    | ok tb' =>
      rw [hg] at h
      simp only at h
      split at h <;> cases h

/-! ### success means conflict-freeness -/

/-- the demand of item `it` of state `s` is in its cell -/
def RecordedItem (c : Ctx) (m : Machine) (tb : TB) (s : Nat) (it : Item) : Prop :=
  ∀ col a, demand c m s it = some (col, a) → ∃ e, tb.actions.lookup (s, col) = some (e, a)

theorem lookup_append_some {α β : Type} [BEq α] [LawfulBEq α] {l : List (α × β)} {k : α} {v : β} (x : α × β)
    (h : l.lookup k = some v) : (l ++ [x]).lookup k = some v := by
  induction l with
  | nil => simp at h
  | cons p l ih =>
    obtain ⟨k', v'⟩ := p
    simp only [List.cons_append, List.lookup] at h ⊢
    split
    · rename_i heq; simp only [heq] at h; exact h
    · rename_i heq; simp only [heq] at h; exact ih h

theorem lookup_append_none {α β : Type} [BEq α] [LawfulBEq α] {l : List (α × β)} {k : α} (v : β)
    (h : l.lookup k = none) : (l ++ [(k, v)]).lookup k = some v := by
  induction l with
  | nil => simp [List.lookup]
  | cons p l ih =>
    obtain ⟨k', v'⟩ := p
    simp only [List.cons_append, List.lookup] at h ⊢
    split
    · rename_i heq; simp only [heq] at h; cases h
    · rename_i heq; simp only [heq] at h; exact ih h

theorem setAction_ok_records {tb tb' : TB} {s col : Nat} {it : Item} {a : Action}
    (h : setAction tb s col it a = .ok tb') :
    (∃ e, tb'.actions.lookup (s, col) = some (e, a)) ∧
    (∀ k v, tb.actions.lookup k = some v → tb'.actions.lookup k = some v) := by
  unfold setAction at h
  cases hl : tb.actions.lookup (s, col) with
  | none =>
    rw [hl] at h
    cases h
    exact ⟨⟨it, lookup_append_none (it, a) hl⟩, fun k v hk => lookup_append_some _ hk⟩
  | some ea =>
    obtain ⟨e, ea⟩ := ea
    rw [hl] at h
    simp only at h
    split at h
    · rename_i heq; cases h; subst heq; exact ⟨⟨e, hl⟩, fun k v hk => hk⟩
    · cases h

theorem addItemAction_ok_records {c : Ctx} {m : Machine} {tb tb' : TB} {s : Nat} {it : Item}
    (h : addItemAction c m tb s it = .ok tb') :
    RecordedItem c m tb' s it ∧ (∀ k v, tb.actions.lookup k = some v → tb'.actions.lookup k = some v) := by
  rcases addItemAction_cases c m tb s it with ⟨site, hp⟩ | ⟨hnone, hok⟩ | ⟨col, a, hd, hset⟩
  · rw [hp] at h; cases h
  · rw [hok] at h; cases h
    exact ⟨(by intro col a hd; rw [hnone] at hd; cases hd), fun k v hk => hk⟩
  · rw [hset] at h
    obtain ⟨h1, h2⟩ := setAction_ok_records h
    refine ⟨?_, h2⟩
    intro col' a' hd'
    rw [hd] at hd'; cases hd'
    exact h1

theorem RecordedItem.mono {c : Ctx} {m : Machine} {tb tb' : TB} {s : Nat} {it : Item}
    (h : RecordedItem c m tb s it) (hm : ∀ k v, tb.actions.lookup k = some v → tb'.actions.lookup k = some v) :
    RecordedItem c m tb' s it := by
  intro col a hd
  obtain ⟨e, he⟩ := h col a hd
  exact ⟨e, hm _ _ he⟩

theorem addStateActions_ok_records (c : Ctx) (m : Machine) (s : Nat) :
    ∀ (items : List Item) (tb tb' : TB), addStateActions c m s items tb = .ok tb' →
      (∀ it ∈ items, RecordedItem c m tb' s it) ∧
      (∀ k v, tb.actions.lookup k = some v → tb'.actions.lookup k = some v) := by
  intro items
  induction items with
  | nil => intro tb tb' h; cases h; exact ⟨(by simp), fun k v hk => hk⟩
  | cons it items ih =>
    intro tb tb' h
    simp only [addStateActions] at h
    cases hres : addItemAction c m tb s it with
    | ok tb1 =>
      rw [hres] at h
      obtain ⟨r1, m1⟩ := addItemAction_ok_records hres
      obtain ⟨r2, m2⟩ := ih tb1 tb' h
      refine ⟨?_, fun k v hk => m2 k v (m1 k v hk)⟩
      intro x hx
      rcases List.mem_cons.mp hx with rfl | hx
      · exact r1.mono m2
      · exact r2 x hx
    | conflict s' e n => rw [hres] at h; cases h
    | panic site => rw [hres] at h; cases h

theorem addActions_ok_records (c : Ctx) (m : Machine) :
    ∀ (sts : List State) (i : Nat) (tb tb' : TB), addActions c m sts i tb = .ok tb' →
      (∀ k st, sts[k]? = some st → ∀ it ∈ st, RecordedItem c m tb' (i + k) it) ∧
      (∀ k v, tb.actions.lookup k = some v → tb'.actions.lookup k = some v) := by
  intro sts
  induction sts with
  | nil => intro i tb tb' h; cases h; exact ⟨(by simp), fun k v hk => hk⟩
  | cons st sts ih =>
    intro i tb tb' h
    simp only [addActions] at h
    cases hres : addStateActions c m i st tb with
    | ok tb1 =>
      rw [hres] at h
      obtain ⟨r1, m1⟩ := addStateActions_ok_records c m i st tb tb1 hres
      obtain ⟨r2, m2⟩ := ih (i + 1) tb1 tb' h
      refine ⟨?_, fun k v hk => m2 k v (m1 k v hk)⟩
      intro k st' hk it hit
      cases k with
      | zero =>
        simp at hk; subst hk
        exact (r1 it hit).mono m2
      | succ k =>
        have := r2 k st' (by simpa using hk) it hit
        rw [show i + (k + 1) = i + 1 + k by omega]
        exact this
    | conflict s' e n => rw [hres] at h; cases h
    | panic site => rw [hres] at h; cases h

/-- **C04 (at the level of the automaton)**: if `machine_to_table` succeeds then no state has two items that
demand different actions on the same lookahead column -/
theorem ok_conflict_free (c : Ctx) (m : Machine) (t : Table) (h : machineToTable c m = .ok t) :
    ¬ ∃ s e n, Genuine c m s e n := by
  rintro ⟨s, e, n, ⟨st, hst, he, hn⟩, col, ae, an, hde, hdn, hne⟩
  unfold machineToTable at h
  cases hres : addActions c m m.states 0 ⟨[], []⟩ with
  | conflict s' e' n' => rw [hres] at h; cases h
  | panic site => rw [hres] at h; cases h
  | ok tb =>
    obtain ⟨hrec, _⟩ := addActions_ok_records c m m.states 0 ⟨[], []⟩ tb hres
    have h1 := hrec s st hst e he col ae (by simpa using hde)
    have h2 := hrec s st hst n hn col an (by simpa using hdn)
    obtain ⟨e1, he1⟩ := h1
    obtain ⟨e2, he2⟩ := h2
    simp only [Nat.zero_add] at he1 he2
    rw [he1] at he2
    cases he2
    exact hne rfl

end Table
end KikiVerif
