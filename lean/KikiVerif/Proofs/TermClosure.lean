/-
Termination of `get_closure`: every item ever queued is well-formed, there are finitely many well-formed items,
an item enters the accumulator at most once and brings a bounded number of new queue entries.
-/
import KikiVerif.Proofs.TermFirst

set_option linter.unusedSimpArgs false
set_option linter.unusedVariables false

namespace KikiVerif
namespace Machine
open LR (Sym Rule Grammar)

/-! ### counting, generically -/

theorem nodup_subset_length' {α : Type} [DecidableEq α] : ∀ (a b : List α), a.Nodup → a ⊆ b → a.length ≤ b.length := by
  intro a
  induction a with
  | nil => intro b _ _; simp
  | cons x a ih =>
    intro b hnd hsub
    rw [List.nodup_cons] at hnd
    have hx : x ∈ b := hsub List.mem_cons_self
    have := ih (b.erase x) hnd.2 (by
      intro y hy
      have hne : y ≠ x := fun e => hnd.1 (e ▸ hy)
      exact (List.mem_erase_of_ne hne).mpr (hsub (List.mem_cons_of_mem _ hy)))
    rw [List.length_erase_of_mem hx] at this
    have hpos : 0 < b.length := List.length_pos_of_mem hx
    simp; omega

/-! ### the universe of well-formed items -/

def maxDot (c : Ctx) : Nat := (c.g.rules.map fun r => r.rhs.length).foldl max 1

theorem le_foldl_max (l : List Nat) (a : Nat) : a ≤ l.foldl max a ∧ ∀ x ∈ l, x ≤ l.foldl max a := by
  induction l generalizing a with
  | nil => simp
  | cons y ys ih =>
    simp only [List.foldl_cons]
    obtain ⟨h1, h2⟩ := ih (max a y)
    refine ⟨Nat.le_trans (Nat.le_max_left a y) h1, ?_⟩
    intro x hx
    rcases List.mem_cons.mp hx with rfl | hx
    · exact Nat.le_trans (Nat.le_max_right a x) h1
    · exact h2 x hx

theorem rhsOf_length_le (c : Ctx) (rule : Nat) : (rhsOf c rule).length ≤ maxDot c := by
  unfold rhsOf maxDot
  split
  · exact (le_foldl_max _ 1).1
  · split
    · rename_i r hr
      exact (le_foldl_max _ 1).2 _ (List.mem_map.mpr ⟨r, List.mem_of_getElem? hr, rfl⟩)
    · simp

def allItems (c : Ctx) : List Item :=
  (List.range (c.numRules + 1)).flatMap fun r =>
    (List.range (c.nT + 1)).flatMap fun la => (List.range (maxDot c + 1)).map fun d => ⟨r, la, d⟩

theorem mem_allItems {c : Ctx} {y : Item} (h : WfItem c y) : y ∈ allItems c := by
  obtain ⟨h1, h2, h3⟩ := h
  unfold allItems
  simp only [List.mem_flatMap, List.mem_map, List.mem_range]
  have := rhsOf_length_le c y.rule
  exact ⟨y.rule, by omega, y.la, by omega, y.dot, by omega, rfl⟩

/-- a sorted set of well-formed items is no larger than the universe -/
theorem wf_length_le {c : Ctx} {S : List Item} (hs : Oset.Sorted S) (hw : ∀ y ∈ S, WfItem c y) :
    S.length ≤ (allItems c).length :=
  nodup_subset_length' S (allItems c) (Oset.Sorted.nodup hs) (fun y hy => mem_allItems (hw y hy))

/-! ### how many items one item can imply -/

def impBound (c : Ctx) : Nat := (c.nT + 1) * c.numRules

theorem ruleIndicesFor_length (c : Ctx) (b : Nat) : (ruleIndicesFor c b).length ≤ c.numRules := by
  unfold ruleIndicesFor Ctx.numRules
  rw [List.length_map]
  have := List.length_filter_le (fun p : Rule Nat Nat × Nat => p.1.lhs == b) c.g.rules.zipIdx
  simpa using this

theorem implied_length {c : Ctx} {fm : List FirstSet} (hwf : CtxWF c) (hfb : FmBound c.nT fm) {x : Item}
    (hx : WfItem c x) {imp : List Item} (h : impliedItems c fm x = some imp) : imp.length ≤ impBound c := by
  unfold impliedItems at h
  split at h
  · rename_i b hb
    split at h
    · cases h
    · rename_i las hlas
      cases h
      -- the lookahead list is sorted and bounded by nT
      have hlas_len : las.length ≤ c.nT + 1 := by
        unfold augmentedFirst at hlas
        split at hlas
        · cases hlas
        · rename_i f hf
          have hft := firstOfSeq_bound hfb _ [] f
            (fun a ha => rhsOf_terminals hwf x.rule a (List.mem_of_mem_drop ha)) (by intro a ha; cases ha) hf
          split at hlas
          · cases hlas
            apply nodup_lt_length (c.nT + 1) _ (Oset.Sorted.nodup (Oset.ofList_sorted _))
            intro a ha
            rcases List.mem_append.mp ((Oset.mem_ofList _ a).mp ha) with h1 | h1
            · have := hft a h1; omega
            · simp at h1; subst h1; have := hx.2.2; omega
          · cases hlas
            apply nodup_lt_length (c.nT + 1) _ (Oset.Sorted.nodup (Oset.ofList_sorted _))
            intro a ha
            have := hft a ((Oset.mem_ofList _ a).mp ha); omega
      have hr := ruleIndicesFor_length c b
      rw [List.length_flatMap]
      have : (las.map fun la => ((ruleIndicesFor c b).map fun r => (⟨r, la, 0⟩ : Item)).length).sum ≤
          las.length * c.numRules := by
        have := sum_le_mul (las.map fun la => ((ruleIndicesFor c b).map fun r => (⟨r, la, 0⟩ : Item)).length) c.numRules (by
          intro n hn
          obtain ⟨la, _, rfl⟩ := List.mem_map.mp hn
          simpa using hr)
        simpa using this
      unfold impBound
      calc _ ≤ las.length * c.numRules := this
        _ ≤ (c.nT + 1) * c.numRules := Nat.mul_le_mul_right _ hlas_len
  · cases h; simp

/-! ### the loop -/

theorem insert_length {s : Oset Item} {x : Item} (hs : Oset.Sorted s.raw) (hx : s.contains x = false) :
    (s.insert x).raw.length = s.raw.length + 1 := by
  unfold Oset.contains at hx
  unfold Oset.insert
  cases hsr : Oset.search x s.raw 0 with
  | mk b k =>
    rw [hsr] at hx
    simp only at hx
    subst hx
    simp only [Oset.insertAt]
    have hk : k ≤ s.raw.length := by
      obtain ⟨hle, _, _⟩ := Oset.search_split x s.raw k hs hsr
      exact hle
    simp [List.length_append, List.length_take, List.length_drop]
    omega

def closureMeasure (c : Ctx) (queue : List Item) (acc : Oset Item) : Nat :=
  queue.length + ((allItems c).length - acc.raw.length) * (impBound c + 1)

theorem closureLoop_terminates {c : Ctx} {fm : List FirstSet} (ok : Assemble.CtxOK c) (hlen : fm.length = c.nN)
    (hfb : FmBound c.nT fm) :
    ∀ (k : Nat) (queue : List Item) (acc : Oset Item), Oset.Sorted acc.raw → (∀ y ∈ acc.raw, WfItem c y) →
      (∀ y ∈ queue, WfItem c y) → closureMeasure c queue acc < k → closureLoop c fm k queue acc ≠ none := by
  intro k
  induction k with
  | zero => intro queue acc _ _ _ h; omega
  | succ k ih =>
    intro queue acc hs hacc hq hk
    cases queue with
    | nil => simp [closureLoop]
    | cons x xs =>
      simp only [closureLoop]
      split
      · refine ih xs acc hs hacc (fun y hy => hq y (List.mem_cons_of_mem _ hy)) ?_
        unfold closureMeasure at hk ⊢
        simp at hk ⊢; omega
      · rename_i hc
        have hcf : acc.contains x = false := by simpa using hc
        obtain ⟨imp, himp⟩ := NoPanic.impliedItems_some ok hlen x (fm := fm)
        rw [himp]
        simp only
        have hxw := hq x List.mem_cons_self
        have hil := implied_length ok.terms hfb hxw himp
        have hs' := Oset.insert_sorted acc x hs
        have hacc' : ∀ y ∈ (acc.insert x).raw, WfItem c y := by
          intro y hy
          rcases (Oset.mem_insert acc x y hs).mp hy with rfl | hy
          · exact hxw
          · exact hacc y hy
        have hlen' := insert_length hs hcf
        have hle := wf_length_le hs' hacc'
        refine ih (xs ++ imp) (acc.insert x) hs' hacc' ?_ ?_
        · intro y hy
          rcases List.mem_append.mp hy with hy | hy
          · exact hq y (List.mem_cons_of_mem _ hy)
          · exact implied_wf ok.terms hfb hxw himp hy
        · unfold closureMeasure at hk ⊢
          rw [hlen'] at hle ⊢
          simp only [List.length_cons, List.length_append] at hk ⊢
          have e : (allItems c).length - acc.raw.length =
              ((allItems c).length - (acc.raw.length + 1)) + 1 := by omega
          rw [e, Nat.add_mul] at hk
          omega

/-- fuel that is always enough for one closure -/
def closureFuel (c : Ctx) : Nat := (allItems c).length + (allItems c).length * (impBound c + 1) + 1

theorem wf_nodup_length_le {c : Ctx} {K : List Item} (hnd : K.Nodup) (hw : ∀ y ∈ K, WfItem c y) :
    K.length ≤ (allItems c).length :=
  nodup_subset_length' K (allItems c) hnd (fun y hy => mem_allItems (hw y hy))

end Machine
end KikiVerif
