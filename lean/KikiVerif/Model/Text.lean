/-
Text layer of the model: Rust `&str` is modelled as `List Char` together with
explicit UTF-8 byte offsets.  `sliceBytes cs a b` is `none` exactly when the
Rust expression `&s[a..b]` would panic (an offset past the end, `a > b`, or an
offset that is not on a character boundary).

Core Lean only (no imports) so that the driver links as a `lean_exe`.
-/
namespace KikiVerif

abbrev Str := List Char

namespace Text

/-- `char::len_utf8` -/
def clen (c : Char) : Nat := c.utf8Size

/-- `str::len` (bytes) -/
def blen : Str → Nat
  | [] => 0
  | c :: cs => clen c + blen cs

/-- Unicode `White_Space`, which is what `char::is_whitespace` tests. -/
def isWhitespace (c : Char) : Bool :=
  let n := c.toNat
  (0x9 ≤ n && n ≤ 0xD) || n == 0x20 || n == 0x85 || n == 0xA0 || n == 0x1680 ||
  (0x2000 ≤ n && n ≤ 0x200A) || n == 0x2028 || n == 0x2029 || n == 0x202F ||
  n == 0x205F || n == 0x3000

def isAsciiUpper (c : Char) : Bool := 'A'.toNat ≤ c.toNat && c.toNat ≤ 'Z'.toNat
def isAsciiLower (c : Char) : Bool := 'a'.toNat ≤ c.toNat && c.toNat ≤ 'z'.toNat
def isAsciiDigit (c : Char) : Bool := '0'.toNat ≤ c.toNat && c.toNat ≤ '9'.toNat
def isAsciiAlpha (c : Char) : Bool := isAsciiUpper c || isAsciiLower c
def isAsciiAlnum (c : Char) : Bool := isAsciiAlpha c || isAsciiDigit c

/-- `char::to_ascii_lowercase` -/
def toAsciiLower (c : Char) : Char :=
  if isAsciiUpper c then Char.ofNat (c.toNat + 32) else c

/-- Drop `n` bytes from the front; `none` if `n` is not on a char boundary or past the end. -/
def dropBytes : Str → Nat → Option Str
  | cs, 0 => some cs
  | [], _ + 1 => none
  | c :: cs, n + 1 => if clen c ≤ n + 1 then dropBytes cs (n + 1 - clen c) else none

/-- Take `n` bytes from the front; `none` if `n` is not on a char boundary or past the end. -/
def takeBytes : Str → Nat → Option Str
  | _, 0 => some []
  | [], _ + 1 => none
  | c :: cs, n + 1 =>
    if clen c ≤ n + 1 then (takeBytes cs (n + 1 - clen c)).map (c :: ·) else none

/-- `&s[a..b]`; `none` models the panic. -/
def sliceBytes (cs : Str) (a b : Nat) : Option Str :=
  if a ≤ b then (dropBytes cs a).bind (fun r => takeBytes r (b - a)) else none

/-- `str::starts_with` -/
def startsWith : Str → Str → Bool
  | _, [] => true
  | [], _ :: _ => false
  | c :: cs, p :: ps => c == p && startsWith cs ps

/-- `str::strip_prefix` -/
def stripPrefix : Str → Str → Option Str
  | cs, [] => some cs
  | [], _ :: _ => none
  | c :: cs, p :: ps => if c == p then stripPrefix cs ps else none

/-- `str::lines`, with the current line accumulated in reverse.  A line ends at `\n`; one `\r`
immediately before that `\n` is not part of the line.  The final line needs no terminator and
keeps a trailing `\r`; a trailing terminator does not produce an extra empty line. -/
def stripCr : Str → Str
  | '\r' :: acc => acc
  | acc => acc

def linesAux : Str → Str → List Str
  | [], acc => if acc.isEmpty then [] else [acc.reverse]
  | c :: rest, acc =>
    if c = '\n' then (stripCr acc).reverse :: linesAux rest [] else linesAux rest (c :: acc)

def lines (s : Str) : List Str := linesAux s []

/-- join with a separator -/
def join (sep : Str) : List Str → Str
  | [] => []
  | [x] => x
  | x :: xs => x ++ sep ++ join sep xs

def natToStr (n : Nat) : Str := (toString n).toList

end Text
end KikiVerif
