/-
Model of `kiki::get_grammar_hash` (lib.rs).
-/
import KikiVerif.Model.Text

namespace KikiVerif
namespace Hash
open Text

def hashPrefix : Str := "// @sha256 ".toList

/-- the `for line in src.0.lines()` loop -/
def scan : List Str → Option Str
  | [] => none
  | l :: ls =>
    if !startsWith l "//".toList then none
    else match stripPrefix l hashPrefix with
      | some h => some h
      | none => scan ls

/-- `get_grammar_hash` -/
def getGrammarHash (text : Str) : Option Str := scan (lines text)

end Hash
end KikiVerif
