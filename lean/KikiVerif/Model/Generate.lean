/-
Model of `kiki::generate` (lib.rs): the composition of the stages, in the same
order, keeping every intermediate value so that the correspondence check can
compare stage by stage.
-/
import KikiVerif.Model.FrontParse
import KikiVerif.Model.Validate
import KikiVerif.Model.Emit

namespace KikiVerif
namespace Generate

/-- where the pipeline stopped -/
inductive Stop where
  | done
  | err (e : KErr)
  | conflict (state : Nat) (existing new : Machine.Item)
  | panic (site : String)
  | timeout (site : String)
deriving Repr

structure Stages where
  tokens : Option (List Token) := none
  unexpected : Option (Option Nat) := none      -- parse failure: index of the offending token
  ast : Option Ast.File := none
  vfile : Option VFile.File := none
  enc : Option Encode.Enc := none
  machine : Option Machine.Machine := none
  table : Option Table.Table := none
  module : Option Emit.Module := none
  text : Option Str := none
  stop : Stop := .done

/-- `generate`, with `fuel` for every loop and `sha` = `sha256::digest(src)` -/
def stages (src : Str) (sha : Str) (fuel : Nat) : Stages := Id.run do
  let mut st : Stages := {}
  match Tokenize.tokenize src with
  | .err e => return { st with stop := .err e }
  | .panic s => return { st with stop := .panic s }
  | .ok toks =>
  st := { st with tokens := some toks }
  match FrontParse.parse toks fuel with
  | none => return { st with stop := .timeout "parser.rs: parse loop" }
  | some .panic => return { st with stop := .panic "parser.rs: parse" }
  | some (.unexpected idx) =>
    st := { st with unexpected := some idx }
    match FrontParse.unexpectedToErr src (idx.bind (toks[·]?)) with
    | .ok e => return { st with stop := .err e }
    | .err e => return { st with stop := .err e }
    | .panic s => return { st with stop := .panic s }
  | some (.ok cst) =>
  match FrontParse.cstToAst cst with
  | none => return { st with stop := .panic "cst_to_ast.rs: malformed CST" }
  | some ast =>
  st := { st with ast := some ast }
  match Validate.validateAst ast with
  | .err e => return { st with stop := .err e }
  | .panic s => return { st with stop := .panic s }
  | .ok vf =>
  st := { st with vfile := some vf }
  match Encode.encode vf with
  | none => return { st with stop := .panic "first_set_map.rs / table.rs: symbol without declaration" }
  | some enc =>
  st := { st with enc := some enc }
  match Machine.machineOf enc.ctx fuel with
  | none => return { st with stop := .timeout "validated_ast_to_machine: loops" }
  | some none => return { st with stop := .panic "validated_ast_to_machine" }
  | some (some m) =>
  st := { st with machine := some m }
  match Table.machineToTable enc.ctx m with
  | .conflict s a b => return { st with stop := .conflict s a b }
  | .panic s => return { st with stop := .panic s }
  | .ok t =>
  st := { st with table := some t }
  match Emit.moduleOf vf enc t sha with
  | none => return { st with stop := .panic "table_to_rust.rs: unwrap" }
  | some md =>
  return { st with module := some md, text := some (Emit.render md) }

end Generate
end KikiVerif
