/-
Model of `table_to_rust.rs`.

The emitted program is modelled in two layers:

* `Module` — a *structure*: header digest, the public type items with their
  attributes and fields, the chosen internal names, table rows, reduce
  descriptors.  The property theorems (C05, C06, C12, C13, C15) are about it.
* `render : Module → Str` — the text, following the one big `format!` of
  `file_src` and the helper functions.  The correspondence check compares
  `render` of the model's module with the implementation's text byte for byte.

`sha256::digest` is a parameter (`sha`).
-/
import KikiVerif.Model.Table
import KikiVerif.Model.Encode

namespace KikiVerif
namespace Emit
open Text Ast
open LR (Action)

def L (x : String) : Str := x.toList

/-- `Indent::indent` -/
def indent (level : Nat) (s : Str) : Str :=
  let ind : Str := (List.replicate level "    ".toList).flatten
  go ind s true
where
  go (ind : Str) : Str → Bool → Str
    | [], _ => []
    | c :: cs, atLineStart =>
      (if atLineStart && c != '\n' then ind else []) ++ c :: go ind cs (c == '\n')

/-- `char::is_uppercase` restricted to what validated names can contain: names
are ASCII (`[A-Za-z0-9_]`), where it coincides with `is_ascii_uppercase`. -/
def pascalToSnakeCase : Str → Str
  | [] => []
  | c :: cs => toAsciiLower c :: cs.flatMap fun d =>
      if isAsciiUpper d then ['_', toAsciiLower d] else [toAsciiLower d]

/-- `create_unique_identifier`: the loop `i = 2, 3, …`, with fuel -/
def firstFree (pref : Str) (used : List Str) : Nat → Nat → Option Str
  | 0, _ => none
  | fuel + 1, i =>
    let name := pref ++ natToStr i
    if used.contains name then firstFree pref used fuel (i + 1) else some name

def createUniqueIdentifier (pref : Str) (used : List Str) : Option (Str × List Str) :=
  if !used.contains pref then some (pref, used ++ [pref])
  else (firstFree pref used (used.length + 1) 2).map fun n => (n, used ++ [n])

structure Names where
  eof : Str
  quasiterminal : Str
  quasiterminalKind : Str
  nonterminalKind : Str
  state : Str
  node : Str
  action : Str
  ruleKind : Str
  reducePrefix : Str
  actionTable : Str
  gotoTable : Str
  parseParam : Str
deriving DecidableEq, Repr

/-- the twelve `create_unique_identifier` calls of `SrcBuilder::new`, in order -/
def chooseNames (used0 : List Str) : Option Names := do
  let (eof, u) ← createUniqueIdentifier (L "Eof") used0
  let (q, u) ← createUniqueIdentifier (L "Quasiterminal") u
  let (qk, u) ← createUniqueIdentifier (L "QuasiterminalKind") u
  let (nk, u) ← createUniqueIdentifier (L "NonterminalKind") u
  let (st, u) ← createUniqueIdentifier (L "State") u
  let (nd, u) ← createUniqueIdentifier (L "Node") u
  let (ac, u) ← createUniqueIdentifier (L "Action") u
  let (rk, u) ← createUniqueIdentifier (L "RuleKind") u
  let (rp, u) ← createUniqueIdentifier (L "reduce") u
  let (at_, u) ← createUniqueIdentifier (L "ACTION_TABLE") u
  let (gt, u) ← createUniqueIdentifier (L "GOTO_TABLE") u
  let (pp, _) ← createUniqueIdentifier (L "S") u
  pure ⟨eof, q, qk, nk, st, nd, ac, rk, rp, at_, gt, pp⟩

/-! ### the structure -/

/-- an emitted field list -/
inductive Body where
  | unit                                  -- no used field: `;` (struct) or nothing (variant)
  | named (fields : List (Str × Str))     -- name, type text
  | tuple (fields : List Str)             -- type text
deriving DecidableEq, Repr

inductive TypeDef where
  | struct (attrs : List Str) (name : Str) (body : Body)
  | enum (attrs : List Str) (name : Str) (variants : List (Str × Body))
deriving DecidableEq, Repr

/-- how one popped child is treated by a reduce function (in field order) -/
inductive Child where
  | discard
  | nt (var : Str) (ty : Str)                 -- `Box::new(ty::try_from(pop).ok().unwrap())`
  | t (var : Str) (method : Str)              -- `pop.method().ok().unwrap()`
deriving DecidableEq, Repr

structure ReduceFn where
  index : Nat
  typeName : Str                -- parent type (NonterminalKind / Node variant)
  ctor : Str                    -- `Name` or `Enum::Variant`
  isEmptyFieldset : Bool        -- `Fieldset::Empty`: no pops, `_states`/`_nodes` params
  children : List Child         -- in field order; popped right to left
  args : Body                   -- constructor arguments: `.named [(field, var)]`, `.tuple [var]`, `.unit`
deriving DecidableEq, Repr

structure Module where
  sha : Str
  tenumAttrs : List Str
  tenumName : Str
  tenumVariants : List (Str × Str)          -- variant name, payload type text
  types : List TypeDef
  startType : Str
  names : Names
  startState : Nat
  nonterminals : List Str                   -- declaration order
  numStates : Nat
  numRules : Nat
  reduceFns : List ReduceFn
  methods : List (Str × Str × Str)          -- terminal variant, method name, type text
  actionRows : List (List Action)           -- per state, columns in declaration order, Eof last
  gotoRows : List (List (Option Nat))       -- per state, columns in declaration order
deriving Repr

/-! ### building the structure -/

/-- the Rust type of a field of symbol `s`: `Box<N>` or the terminal's payload type;
`none` = `get_type(..).unwrap()` panics -/
def fieldType (te : VFile.TermEnum) : SymId → Option Str
  | .n i => some (L "Box<" ++ i.name ++ L ">")
  | .t i => te.getType i.name

def namedFieldTypes (te : VFile.TermEnum) : List NamedField → Option (List (Str × Str))
  | [] => some []
  | f :: fs =>
    match f.name with
    | .us _ => namedFieldTypes te fs
    | .id i => do
      let ty ← fieldType te f.sym
      let rest ← namedFieldTypes te fs
      pure ((i.name, ty) :: rest)

def tupleFieldTypes (te : VFile.TermEnum) : List TupleField → Option (List Str)
  | [] => some []
  | .skipped _ :: fs => tupleFieldTypes te fs
  | .used s :: fs => do
    let ty ← fieldType te s
    let rest ← tupleFieldTypes te fs
    pure (ty :: rest)

/-- `get_fieldset_src`, as structure -/
def bodyOf (te : VFile.TermEnum) : Fieldset → Option Body
  | .empty => some .unit
  | .named fs =>
    if !(fs.any NamedField.isUsed) then some .unit else (namedFieldTypes te fs).map .named
  | .tuple fs =>
    if !(fs.any TupleField.isUsed) then some .unit else (tupleFieldTypes te fs).map .tuple

def attrSrcs (as : List Attr) : List Str := as.map (·.src)

/-- `get_nonterminal_type_defs_src`, as structure -/
def typeDefOf (te : VFile.TermEnum) : VFile.Nonterminal → Option TypeDef
  | .struct s => (bodyOf te s.fieldset).map fun b => .struct (attrSrcs s.attrs) s.name.name b
  | .enum e =>
    (e.variants.mapM fun v => (bodyOf te v.fieldset).map fun b => (v.name.name, b)).map fun vs =>
      .enum (attrSrcs e.attrs) e.name.name vs

/-- `node_to_terminal_method_names` -/
def methodNames (te : VFile.TermEnum) : List (Str × Str × Str) :=
  te.variants.zipIdx.map fun (v, i) =>
    (v.name, L "try_into_" ++ pascalToSnakeCase v.name ++ ['_'] ++ natToStr i, v.ty)

def methodFor (ms : List (Str × Str × Str)) (name : Str) : Option Str :=
  (ms.find? (·.1 = name)).map (·.2.1)

def ctorText : VFile.Ctor → Str
  | .struct n => n
  | .variant e v => e ++ L "::" ++ v

/-- `get_reduce_fn_src`, as structure -/
def reduceFnOf (ms : List (Str × Str × Str)) (idx : Nat) (r : VFile.Rule) : Option ReduceFn :=
  match r.fieldset with
  | .empty => some ⟨idx, r.ctor.typeName, ctorText r.ctor, true, [], .unit⟩
  | .named fs => do
    let children ← (fs.zipIdx.map fun (f, i) =>
      match f.name, f.sym with
      | .us _, _ => some Child.discard
      | .id n, .n ty => some (.nt (n.name ++ ['_'] ++ natToStr i) ty.name)
      | .id n, .t ty => (methodFor ms ty.name).map fun m => .t (n.name ++ ['_'] ++ natToStr i) m).mapM id
    let args := fs.zipIdx.filterMap fun (f, i) =>
      match f.name with
      | .us _ => none
      | .id n => some (n.name, n.name ++ ['_'] ++ natToStr i)
    pure ⟨idx, r.ctor.typeName, ctorText r.ctor, false, children,
          if fs.any NamedField.isUsed then .named args else .unit⟩
  | .tuple fs => do
    let children ← (fs.zipIdx.map fun (f, i) =>
      match f with
      | .skipped _ => some Child.discard
      | .used (.n ty) => some (.nt (['t'] ++ natToStr i) ty.name)
      | .used (.t ty) => (methodFor ms ty.name).map fun m => .t (['t'] ++ natToStr i) m).mapM id
    let args := fs.zipIdx.filterMap fun (f, i) =>
      match f with
      | .skipped _ => none
      | .used _ => some (['t'] ++ natToStr i)
    pure ⟨idx, r.ctor.typeName, ctorText r.ctor, false, children,
          if fs.any TupleField.isUsed then .tuple args else .unit⟩

/-- table rows in declaration order of the columns -/
def actionRows (enc : Encode.Enc) (t : Table.Table) : List (List Action) :=
  (List.range t.nStates).map fun s =>
    (enc.tdecl.map fun code => t.action s code) ++ [t.action s t.nT]

def gotoRows (enc : Encode.Enc) (t : Table.Table) : List (List (Option Nat)) :=
  (List.range t.nStates).map fun s => enc.ndecl.map fun code => t.goto s code

/-- `SrcBuilder::new` + the pieces of `file_src`; `none` = one of the `unwrap`s panics -/
def moduleOf (f : VFile.File) (enc : Encode.Enc) (t : Table.Table) (sha : Str) : Option Module := do
  let names ← chooseNames f.definedIdentifiers
  let types ← f.nonterminals.mapM (typeDefOf f.tenum)
  let ms := methodNames f.tenum
  let rfs ← (f.rules.zipIdx.map fun (r, i) => reduceFnOf ms i r).mapM id
  pure {
    sha := sha
    tenumAttrs := attrSrcs f.tenum.attrs
    tenumName := f.tenum.name
    tenumVariants := f.tenum.variants.map fun v => (v.name, v.ty)
    types := types
    startType := f.start
    names := names
    startState := t.start
    nonterminals := f.nonterminals.map (·.name)
    numStates := t.nStates
    numRules := f.rules.length
    reduceFns := rfs
    methods := ms
    actionRows := actionRows enc t
    gotoRows := gotoRows enc t }

/-! ### rendering -/

def nl : Str := ['\n']
def joinNl (l : List Str) : Str := join nl l
def joinNlNl (l : List Str) : Str := join (L "\n\n") l

/-- `get_attributes_src_with_newline_after_each_attribute` -/
def attrsSrc (as : List Str) : Str := (as.map (· ++ nl)).flatten

/-- `get_fieldset_src` -/
def bodySrc (b : Body) (semicolonIfUnnamed pubOnNamed : Bool) : Str :=
  match b with
  | .unit => if semicolonIfUnnamed then L ";" else []
  | .named fs =>
    let pub_ := if pubOnNamed then L "pub " else []
    L " {\n" ++ indent 1 (joinNl (fs.map fun (n, ty) => pub_ ++ n ++ L ": " ++ ty ++ L ",")) ++ L "\n}"
  | .tuple fs =>
    L "(\n" ++ indent 1 (joinNl (fs.map fun ty => ty ++ L ",")) ++ L "\n)" ++
      (if semicolonIfUnnamed then L ";" else [])

def typeDefSrc : TypeDef → Str
  | .struct attrs name body => attrsSrc attrs ++ L "pub struct " ++ name ++ bodySrc body true true
  | .enum attrs name vs =>
    attrsSrc attrs ++ L "pub enum " ++ name ++ L " {\n" ++
      indent 1 (joinNl (vs.map fun (vn, b) => vn ++ bodySrc b false false ++ L ",")) ++ L "\n}"

def actionSrc (n : Names) : Action → Str
  | .shift st => L "Shift(" ++ n.state ++ L "::S" ++ natToStr st ++ L ")"
  | .reduce r => L "Reduce(" ++ n.ruleKind ++ L "::R" ++ natToStr r ++ L ")"
  | .accept => L "Accept"
  | .err => L "Err"

def actionRowSrc (n : Names) (row : List Action) : Str :=
  L "[\n" ++ indent 1 (joinNl (row.map fun a => n.action ++ L "::" ++ actionSrc n a ++ L ",")) ++ L "\n],"

def gotoRowSrc (n : Names) (row : List (Option Nat)) : Str :=
  L "[\n" ++ indent 1 (joinNl (row.map fun g =>
    (match g with
     | some st => L "Some(" ++ n.state ++ L "::S" ++ natToStr st ++ L ")"
     | none => L "None") ++ L ",")) ++ L "\n],"

def childSrc : Child → Str
  | .discard => L "nodes.pop().unwrap();\n"
  | .nt var ty => L "let " ++ var ++ L " = Box::new(" ++ ty ++ L "::try_from(nodes.pop().unwrap()).ok().unwrap());\n"
  | .t var m => L "let " ++ var ++ L " = nodes.pop().unwrap()." ++ m ++ L "().ok().unwrap();\n"

def argsSrc : Body → Str
  | .unit => []
  | .named fs => L " {\n" ++ indent 2 (joinNl (fs.map fun (f, v) => f ++ L ": " ++ v ++ L ",")) ++ L "\n    }"
  | .tuple fs => L "(\n" ++ indent 2 (joinNl (fs.map fun v => v ++ L ",")) ++ L "\n    )"

def reductionSrc (n : Names) (r : ReduceFn) : Str :=
  let tail := L "(\n    " ++ n.node ++ L "::" ++ r.typeName ++ L "(" ++ r.ctor ++ argsSrc r.args ++ L "),\n    " ++
    n.nonterminalKind ++ L "::" ++ r.typeName ++ L ",\n)"
  if r.isEmptyFieldset then tail
  else (r.children.reverse.map childSrc).flatten ++ L "\nstates.truncate(states.len() - " ++
    natToStr r.children.length ++ L ");\n\n" ++ tail

def reduceFnName (n : Names) (i : Nat) : Str := n.reducePrefix ++ L "_r" ++ natToStr i

def reduceFnSrc (n : Names) (r : ReduceFn) : Str :=
  let (sp, np) := if r.isEmptyFieldset then (L "_states", L "_nodes") else (L "states", L "nodes")
  L "fn " ++ reduceFnName n r.index ++ L "(" ++ sp ++ L ": &mut Vec<" ++ n.state ++ L ">, " ++ np ++
    L ": &mut Vec<" ++ n.node ++ L ">) -> (" ++ n.node ++ L ", " ++ n.nonterminalKind ++ L ") {\n" ++
    indent 1 (reductionSrc n r) ++ L "\n}"

def tryFromSrc (n : Names) (nt : Str) : Str :=
  L "impl TryFrom<" ++ n.node ++ L "> for " ++ nt ++ L " {\n    type Error = " ++ n.node ++
  L ";\n\n    fn try_from(node: " ++ n.node ++ L ") -> Result<Self, Self::Error> {\n        match node {\n            " ++
  n.node ++ L "::" ++ nt ++ L "(n) => Ok(n),\n            _ => Err(node),\n        }\n    }\n}"

def methodSrc (m : Str × Str × Str) : Str :=
  L "fn " ++ m.2.1 ++ L "(self) -> Result<" ++ m.2.2 ++ L ", Self> {\n    match self {\n        Self::" ++ m.1 ++
  L "(t) => Ok(t),\n        _ => Err(self),\n    }\n}"

/-- the comment header of the emitted file, with the digest of the grammar source -/
def headerBefore : Str := L "// This code was generated by Kiki.\n// Kiki is an open-source minimalist parser generator for Rust.\n// You can read more at https://crates.io/crates/kiki\n//\n// This code was generated from a grammar with the following hash:\n// @sha256 "
def headerAfter : Str := L "\n\n// Since this code is automatically generated,\n// some parts may be unidiomatic.\n// The linter often complains about these parts.\n// However, these warnings are not useful.\n// Therefore, we disable certain lints for this file.\n#![allow(non_snake_case)]\n#![allow(dead_code)]\n\n"
def header (sha : Str) : Str := headerBefore ++ sha ++ headerAfter

/-- everything after the header -/
def body (m : Module) : Str :=
  let n := m.names
  let T := m.tenumName
  attrsSrc m.tenumAttrs ++ L "pub enum " ++ T ++ L " {\n" ++
  indent 1 (joinNl (m.tenumVariants.map fun (v, ty) => v ++ L "(" ++ ty ++ L "),")) ++ L "\n}\n\n" ++
  joinNlNl (m.types.map typeDefSrc) ++
  L "\n\n/// If the parser encounters an unexpected token `t`, it will return `Err(Some(t))`.\n/// If the parser encounters an unexpected end of input, it will return `Err(None)`.\npub fn parse<" ++ n.parseParam ++ L ">(src: " ++ n.parseParam ++ L ") -> Result<" ++ m.startType ++ L ", Option<" ++ T ++ L ">>\nwhere " ++ n.parseParam ++ L ": IntoIterator<Item = " ++ T ++ L "> {\n    let mut quasiterminals = src.into_iter()\n        .map(" ++ n.quasiterminal ++ L "::Terminal)\n        .chain(std::iter::once(" ++ n.quasiterminal ++ L "::" ++ n.eof ++ L "))\n        .peekable();\n    let mut states = vec![" ++ n.state ++ L "::S" ++ natToStr m.startState ++ L "];\n    let mut nodes: Vec<" ++ n.node ++ L "> = vec![];\n    loop {\n        let top_state = *states.last().unwrap();\n        let next_quasiterminal_kind = " ++ n.quasiterminalKind ++ L "::from_quasiterminal(quasiterminals.peek().unwrap());\n        match get_action(top_state, next_quasiterminal_kind) {\n            " ++ n.action ++ L "::Shift(new_state) => {\n                states.push(new_state);\n                nodes.push(" ++ n.node ++ L "::from_terminal(quasiterminals.next().unwrap().try_into_terminal().unwrap()));\n            }\n\n            " ++ n.action ++ L "::Reduce(rule_kind) => {\n                let (new_node, new_node_kind) = pop_and_reduce(&mut states, &mut nodes, rule_kind);\n                nodes.push(new_node);\n                let temp_top_state = *states.last().unwrap();\n                let Some(new_state) = get_goto(temp_top_state, new_node_kind) else {\n                    return Err(quasiterminals.next().unwrap().try_into_terminal().ok());\n                };\n                states.push(new_state);\n            }\n\n            " ++ n.action ++ L "::Accept => {\n                return Ok(" ++ m.startType ++ L "::try_from(nodes.pop().unwrap()).ok().unwrap());\n            }\n\n            " ++ n.action ++ L "::Err => {\n                return Err(quasiterminals.next().unwrap().try_into_terminal().ok());\n            }\n        }\n    }\n}\n\nenum " ++ n.quasiterminal ++ L " {\n    Terminal(" ++ T ++ L "),\n    " ++ n.eof ++ L ",\n}\n\n#[derive(Clone, Copy, Debug)]\nenum " ++ n.quasiterminalKind ++ L " {\n" ++
  indent 1 (joinNl (m.tenumVariants.zipIdx.map fun ((v, _), i) => v ++ L " = " ++ natToStr i ++ L ",")) ++
  L "\n    " ++ n.eof ++ L " = " ++ natToStr m.tenumVariants.length ++ L ",\n}\n\n#[derive(Clone, Copy, Debug)]\nenum " ++ n.nonterminalKind ++ L " {\n" ++
  indent 1 (joinNl (m.nonterminals.zipIdx.map fun (nt, i) => nt ++ L " = " ++ natToStr i ++ L ",")) ++
  L "\n}\n\n#[derive(Clone, Copy, Debug)]\nenum " ++ n.state ++ L " {\n" ++
  indent 1 (joinNl ((List.range m.numStates).map fun i => L "S" ++ natToStr i ++ L " = " ++ natToStr i ++ L ",")) ++
  L "\n}\n\nenum " ++ n.node ++ L " {\n" ++
  indent 1 (joinNl ((m.nonterminals.map fun nt => nt ++ L "(" ++ nt ++ L "),") ++
    (m.tenumVariants.map fun (v, ty) => v ++ L "(" ++ ty ++ L "),"))) ++
  L "\n}\n\n#[derive(Clone, Copy, Debug)]\nenum " ++ n.action ++ L " {\n    Shift(" ++ n.state ++ L "),\n    Reduce(" ++ n.ruleKind ++ L "),\n    Accept,\n    Err,\n}\n\n#[derive(Clone, Copy, Debug)]\nenum " ++ n.ruleKind ++ L " {\n" ++
  indent 1 (joinNl ((List.range m.numRules).map fun i => L "R" ++ natToStr i ++ L " = " ++ natToStr i ++ L ",")) ++
  L "\n}\n\nfn pop_and_reduce(states: &mut Vec<" ++ n.state ++ L ">, nodes: &mut Vec<" ++ n.node ++ L ">, rule_kind: " ++ n.ruleKind ++ L ") -> (" ++ n.node ++ L ", " ++ n.nonterminalKind ++ L ") {\n    match rule_kind {\n" ++
  indent 2 (joinNl ((List.range m.numRules).map fun i =>
    n.ruleKind ++ L "::R" ++ natToStr i ++ L " => " ++ reduceFnName n i ++ L "(states, nodes),")) ++
  L "\n    }\n}\n\n" ++
  joinNlNl (m.reduceFns.map (reduceFnSrc n)) ++
  L "\n\nimpl " ++ n.quasiterminalKind ++ L " {\n    fn from_quasiterminal(quasiterminal: &" ++ n.quasiterminal ++ L ") -> Self {\n        match quasiterminal {\n            " ++ n.quasiterminal ++ L "::Terminal(terminal) => Self::from_terminal(terminal),\n            " ++ n.quasiterminal ++ L "::" ++ n.eof ++ L " => Self::" ++ n.eof ++ L ",\n        }\n    }\n\n    fn from_terminal(terminal: &" ++ T ++ L ") -> Self {\n        match " ++ (if m.tenumVariants.isEmpty then L "*terminal" else L "terminal") ++ L " {\n" ++
  indent 3 (joinNl (m.tenumVariants.map fun (v, _) => T ++ L "::" ++ v ++ L "(_) => Self::" ++ v ++ L ",")) ++
  L "\n        }\n    }\n}\n\nimpl " ++ n.node ++ L " {\n    fn from_terminal(terminal: " ++ T ++ L ") -> Self {\n        match terminal {\n" ++
  indent 3 (joinNl (m.tenumVariants.map fun (v, _) => T ++ L "::" ++ v ++ L "(t) => Self::" ++ v ++ L "(t),")) ++
  L "\n        }\n    }\n}\n\nimpl " ++ n.quasiterminal ++ L " {\n    fn try_into_terminal(self) -> Result<" ++ T ++ L ", ()> {\n        match self {\n            Self::Terminal(terminal) => Ok(terminal),\n            Self::" ++ n.eof ++ L " => Err(()),\n        }\n    }\n}\n\nstatic " ++ n.actionTable ++ L ": [[" ++ n.action ++ L "; " ++ natToStr (m.tenumVariants.length + 1) ++ L "]; " ++ natToStr m.numStates ++ L "] = [\n" ++
  indent 1 (joinNl (m.actionRows.map (actionRowSrc n))) ++
  L "\n];\n\nfn get_action(top_state: " ++ n.state ++ L ", next_quasiterminal_kind: " ++ n.quasiterminalKind ++ L ") -> " ++ n.action ++ L " {\n    " ++ n.actionTable ++ L "[top_state as usize][next_quasiterminal_kind as usize]\n}\n\nstatic " ++ n.gotoTable ++ L ": [[Option<" ++ n.state ++ L ">; " ++ natToStr m.nonterminals.length ++ L "]; " ++ natToStr m.numStates ++ L "] = [\n" ++
  indent 1 (joinNl (m.gotoRows.map (gotoRowSrc n))) ++
  L "\n];\n\nfn get_goto(top_state: " ++ n.state ++ L ", new_node_kind: " ++ n.nonterminalKind ++ L ") -> Option<" ++ n.state ++ L "> {\n    " ++ n.gotoTable ++ L "[top_state as usize][new_node_kind as usize]\n}\n\n" ++
  joinNlNl (m.nonterminals.map (tryFromSrc n)) ++
  L "\n\nimpl " ++ n.node ++ L " {\n" ++
  indent 1 (joinNlNl (m.methods.map methodSrc)) ++
  L "\n}\n"


/-- the `format!` of `file_src` -/
def render (m : Module) : Str := header m.sha ++ body m

end Emit
end KikiVerif
