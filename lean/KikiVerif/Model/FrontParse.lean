/-
Model of the front end: the checked-in table-driven parser `kiki/src/parser.rs`
(tables and reduce arms are *extracted* by the translator into
`Generated/ParserRs.lean`; the driver loop is `LR.step`, written from the
`parse` template) and of `cst_to_ast.rs` (the CST is the derivation tree; the
flattening functions below follow the `From` impls one by one).
-/
import KikiVerif.Model.Ast
import KikiVerif.LR.Cert
import KikiVerif.Generated.ParserRs
import KikiVerif.Generated.ParserKiki

namespace KikiVerif
namespace FrontParse
open LR

/-- `QuasiterminalKind::from_terminal`: the column of a token -/
def Token.kind : Token → Nat
  | .underscore _ => 0
  | .ident _ _ => 1
  | .termIdent _ _ => 2
  | .attr _ _ => 3
  | .startKw _ => 4
  | .structKw _ => 5
  | .enumKw _ => 6
  | .terminalKw _ => 7
  | .colon _ => 8
  | .dcolon _ => 9
  | .comma _ => 10
  | .lparen _ => 11
  | .rparen _ => 12
  | .lcurly _ => 13
  | .rcurly _ => 14
  | .langle _ => 15
  | .rangle _ => 16

/-- the names the numbering above assumes; `Properties/C09` proves they are the
`QuasiterminalKind` variants extracted from `parser.rs` -/
def kindNames : List String :=
  ["Underscore", "Ident", "TerminalIdent", "OuterAttribute", "StartKw", "StructKw", "EnumKw",
   "TerminalKw", "Colon", "DoubleColon", "Comma", "LParen", "RParen", "LCurly", "RCurly",
   "LAngle", "RAngle"]

abbrev FTok := Tok Nat Token
def mkTok (t : Token) : FTok := ⟨Token.kind t, t⟩

/-! ### the grammar of record, coded with the numbering of `parser.rs` -/

open Generated in
def codeSym (s : ParserKiki.S) : Option (Sym Nat Nat) :=
  match s with
  | .t name => ((ParserKiki.terminals.map (·.1)).idxOf? name).map .t
  | .n name => ((ParserKiki.decls.map fun | .struct n _ => n | .enum n _ => n).idxOf? name).map .n

open Generated in
def fsSyms : ParserKiki.FS → List ParserKiki.S
  | .empty => []
  | .named fs => fs.map (·.2)
  | .tuple fs => fs.map (·.2)

open Generated in
/-- one rule per struct / enum variant, in declaration order; `none` if a symbol is undeclared -/
def kikiRules : Option (List (Rule Nat Nat)) :=
  (ParserKiki.decls.zipIdx.flatMap fun (d, i) =>
    match d with
    | .struct _ fs => [(i, fs)]
    | .enum _ vs => vs.map fun v => (i, v.2)).mapM fun (i, fs) =>
      ((fsSyms fs).mapM codeSym).map fun rhs => ⟨i, rhs⟩

open Generated in
def kikiG : Grammar Nat Nat :=
  { rules := kikiRules.getD [],
    start := ((ParserKiki.decls.map fun | .struct n _ => n | .enum n _ => n).idxOf? ParserKiki.start).getD 0 }

/-! ### the driver over the extracted tables -/

open Generated in
/-- the rule data the reduce arms of `parser.rs` use: (number of pops, lhs kind) -/
def armRules : List (Rule Nat Nat) :=
  ParserRs.reduceArms.map fun a =>
    ⟨(ParserRs.nonterminalNames.idxOf? a.lhs).getD 0, List.replicate a.truncate (.t 0)⟩

open Generated in
/-- the extracted tables as a `Cert` (item sets and FIRST table are not needed to *run*) -/
def frontCert : Valid.Cert :=
  { nT := ParserRs.terminalNames.length, start := ParserRs.startState, states := [],
    actions := ParserRs.actionTable, gotos := ParserRs.gotoTable, first := [] }

def frontAuto : Auto Nat Nat := Valid.mkAuto frontCert

/-- the grammar as the driver of `parser.rs` sees it -/
def armG : Grammar Nat Nat := { rules := armRules, start := kikiG.start }

inductive ParseOut where
  | ok (t : Tree Nat Token)
  | unexpected (index : Option Nat)      -- index of the offending token, `none` = end of input
  | panic
deriving Inhabited

/-- `parser::parse`.  The driver uses, per rule, only the number of pops and the
left-hand side; they are taken from the *extracted reduce arms* (`armRules`). -/
def parse (toks : List Token) (fuel : Nat) : Option ParseOut :=
  (runCfg armG frontAuto fuel ⟨[frontAuto.start], [], toks.map mkTok⟩).map fun (r, c) =>
    match r with
    | .ok t => .ok t
    | .panic => .panic
    | .err => .unexpected (if c.rest.isEmpty then none else some (toks.length - c.rest.length))
    | .cont _ => .panic      -- unreachable: `runCfg` never returns `cont`

/-! ### `cst_to_ast.rs` -/

abbrev CTree := Tree Nat Token

def identOf : CTree → Option Ast.Ident
  | .leaf ⟨_, .ident name p⟩ => some ⟨name, p⟩
  | _ => none

def termIdentOf : CTree → Option Ast.TermIdent
  | .leaf ⟨_, .termIdent name p⟩ => some ⟨name, p⟩
  | _ => none

def attrOf : CTree → Option Ast.Attr
  | .leaf ⟨_, .attr src p⟩ => some ⟨src, p⟩
  | _ => none

/-- `IdentOrTerminalIdent` (rules 40, 41) -/
def symIdOf : CTree → Option Ast.SymId
  | .node 40 [c] => (identOf c).map .n
  | .node 41 [c] => (termIdentOf c).map .t
  | _ => none

/-- `IdentOrUnderscore` (rules 38, 39) -/
def fieldNameOf : CTree → Option Ast.FieldName
  | .node 38 [c] => (identOf c).map .id
  | .node 39 [.leaf ⟨_, .underscore p⟩] => some (.us p)
  | _ => none

/-- `NamedField` (rule 18): name `_:` symbol -/
def namedFieldOf : CTree → Option Ast.NamedField
  | .node 18 [n, _, s] => do pure ⟨← fieldNameOf n, ← symIdOf s⟩
  | _ => none

/-- `From<cst::NamedFields> for Vec<ast::NamedField>` (rules 16, 17) -/
def namedFieldsOf : CTree → Option (List Ast.NamedField)
  | .node 16 [f] => (namedFieldOf f).map ([·])
  | .node 17 [l, r] => do
    let xs ← namedFieldsOf l
    let x ← namedFieldOf r
    pure (xs ++ [x])
  | _ => none

/-- `TupleField` (rules 22, 23) -/
def tupleFieldOf : CTree → Option Ast.TupleField
  | .node 22 [s] => (symIdOf s).map .used
  | .node 23 [_, _, s] => (symIdOf s).map .skipped
  | _ => none

/-- `From<cst::TupleFields>` (rules 20, 21) -/
def tupleFieldsOf : CTree → Option (List Ast.TupleField)
  | .node 20 [f] => (tupleFieldOf f).map ([·])
  | .node 21 [l, r] => do
    let xs ← tupleFieldsOf l
    let x ← tupleFieldOf r
    pure (xs ++ [x])
  | _ => none

/-- `Fieldset` (rules 12–14), `NamedFieldset` (15), `TupleFieldset` (19) -/
def fieldsetOf : CTree → Option Ast.Fieldset
  | .node 12 [] => some .empty
  | .node 13 [.node 15 [_, fs, _]] => (namedFieldsOf fs).map .named
  | .node 14 [.node 19 [_, fs, _]] => (tupleFieldsOf fs).map .tuple
  | _ => none

/-- `From<cst::OptOuterAttributes>` (rules 10, 11) -/
def attrsOf : CTree → Option (List Ast.Attr)
  | .node 10 [] => some []
  | .node 11 [l, r] => do
    let xs ← attrsOf l
    let x ← attrOf r
    pure (xs ++ [x])
  | _ => none

/-- `From<cst::Path>` (rules 33, 34) -/
def pathOf : CTree → Option (List Ast.Ident)
  | .node 33 [i] => (identOf i).map ([·])
  | .node 34 [l, _, i] => do
    let xs ← pathOf l
    let x ← identOf i
    pure (xs ++ [x])
  | _ => none

mutual
/-- `From<cst::Type>` (rules 30–32), `ComplexType` (35) -/
def typeOf : CTree → Option Ast.Ty
  | .node 30 [_, _] => some .unit
  | .node 31 [p] => (pathOf p).map .path
  | .node 32 [.node 35 [callee, _, args, _]] => do
    let c ← pathOf callee
    let a ← typesOf args
    pure (.complex c a)
  | _ => none
/-- `From<cst::CommaSeparatedTypes>` (rules 36, 37) -/
def typesOf : CTree → Option (List Ast.Ty)
  | .node 36 [t] => (typeOf t).map ([·])
  | .node 37 [l, _, t] => do
    let xs ← typesOf l
    let x ← typeOf t
    pure (xs ++ [x])
  | _ => none
end

/-- `EnumVariant` (rule 26) and `From<cst::OptEnumVariants>` (rules 24, 25) -/
def variantsOf : CTree → Option (List Ast.Variant)
  | .node 24 [] => some []
  | .node 25 [l, .node 26 [name, fs]] => do
    let xs ← variantsOf l
    let n ← identOf name
    let f ← fieldsetOf fs
    pure (xs ++ [⟨n, f⟩])
  | _ => none

/-- `TerminalEnumVariant` (rule 29) and `From<cst::OptTerminalEnumVariants>` (rules 27, 28) -/
def termVariantsOf : CTree → Option (List Ast.TermVariant)
  | .node 27 [] => some []
  | .node 28 [l, .node 29 [name, _, ty]] => do
    let xs ← termVariantsOf l
    let n ← termIdentOf name
    let t ← typeOf ty
    pure (xs ++ [⟨n, t⟩])
  | _ => none

/-- `FileItem` (rules 3–6), `Struct` (7), `Enum` (8), `TerminalEnum` (9) -/
def itemOf : CTree → Option Ast.Item
  | .node 3 [_, i] => (identOf i).map .start
  | .node 4 [.node 7 [attrs, _, name, fs]] => do
    pure (.struct ⟨← attrsOf attrs, ← identOf name, ← fieldsetOf fs⟩)
  | .node 5 [.node 8 [attrs, _, name, _, vs, _]] => do
    pure (.enum ⟨← attrsOf attrs, ← identOf name, ← variantsOf vs⟩)
  | .node 6 [.node 9 [attrs, _, name, _, vs, _]] => do
    pure (.terminal ⟨← attrsOf attrs, ← identOf name, ← termVariantsOf vs⟩)
  | _ => none

/-- `From<cst::OptItems>` (rules 1, 2) -/
def itemsOf : CTree → Option (List Ast.Item)
  | .node 1 [] => some []
  | .node 2 [l, r] => do
    let xs ← itemsOf l
    let x ← itemOf r
    pure (xs ++ [x])
  | _ => none

/-- `From<cst::File> for ast::File` (rule 0) -/
def cstToAst : CTree → Option Ast.File
  | .node 0 [items] => (itemsOf items).map (⟨·⟩)
  | _ => none

/-- the constructor names the rule numbers above assume, in rule order;
`Properties/C09` proves they are what `parser.kiki` declares and what the reduce
arms of `parser.rs` build -/
def ruleCtorNames : List String :=
  ["File", "OptItems::Nil", "OptItems::Cons", "FileItem::Start", "FileItem::Struct",
   "FileItem::Enum", "FileItem::Terminal", "Struct", "Enum", "TerminalEnum",
   "OptOuterAttributes::Nil", "OptOuterAttributes::Cons", "Fieldset::Empty", "Fieldset::Named",
   "Fieldset::Tuple", "NamedFieldset", "NamedFields::One", "NamedFields::Cons", "NamedField",
   "TupleFieldset", "TupleFields::One", "TupleFields::Cons", "TupleField::Used",
   "TupleField::Skipped", "OptEnumVariants::Nil", "OptEnumVariants::Cons", "EnumVariant",
   "OptTerminalEnumVariants::Nil", "OptTerminalEnumVariants::Cons", "TerminalEnumVariant",
   "Type::Unit", "Type::Path", "Type::Complex", "Path::One", "Path::Cons", "ComplexType",
   "CommaSeparatedTypes::One", "CommaSeparatedTypes::Cons", "IdentOrUnderscore::Ident",
   "IdentOrUnderscore::Underscore", "IdentOrTerminalIdent::Ident", "IdentOrTerminalIdent::Terminal"]

/-! ### `unexpected_token_or_eof_to_kiki_err.rs` -/

/-- `Token::start` (the subtraction `dollarless_position - 1` underflows ⇒ panic) -/
def Token.start : Token → Option Nat
  | .underscore p | .startKw p | .structKw p | .enumKw p | .terminalKw p | .colon p | .dcolon p
  | .comma p | .lparen p | .rparen p | .lcurly p | .rcurly p | .langle p | .rangle p => some p
  | .ident _ p => some p
  | .termIdent _ dp => if dp = 0 then none else some (dp - 1)
  | .attr _ p => some p

/-- `Token::content_len` -/
def Token.contentLen : Token → Nat
  | .underscore _ => 1
  | .ident name _ => Text.blen name
  | .termIdent name _ => 1 + Text.blen name
  | .attr src _ => Text.blen src
  | .startKw _ => 5
  | .structKw _ => 6
  | .enumKw _ => 4
  | .terminalKw _ => 8
  | .colon _ => 1
  | .dcolon _ => 2
  | .comma _ | .lparen _ | .rparen _ | .lcurly _ | .rcurly _ | .langle _ | .rangle _ => 1

/-- `unexpected_token_or_eof_to_kiki_err` -/
def unexpectedToErr (src : Str) : Option Token → Res KErr
  | none => .ok (.parse (Text.blen src) [] (Text.blen src))
  | some t =>
    match Token.start t with
    | none => .panic "unexpected_token_or_eof_to_kiki_err.rs: Token::start underflow"
    | some s =>
      let e := s + Token.contentLen t
      match Text.sliceBytes src s e with
      | none => .panic "unexpected_token_or_eof_to_kiki_err.rs: src[start..end]"
      | some content => .ok (.parse s content e)

end FrontParse
end KikiVerif
