/-
Model of `validated_ast_to_machine/{mod,first_set_map}.rs`,
`normalize_machine.rs` and `sort_and_get_index_updater.rs`.

Symbols are `Nat` codes.  A terminal's code is the rank of its name among the
terminal names in byte order, a nonterminal's code the rank of its name among
the nonterminal names, so that the derived `Ord` of the Rust types
(`DollarlessTerminalName`, `Symbol`, `Lookahead`, `RuleIndex`, `StateItem`,
`State`, `Transition`) coincides with the orders used here:

* `RuleIndex::Original(i)` ↦ `i`, `RuleIndex::Augmented` ↦ `numRules`
  (`Original(_) < Augmented`);
* `Lookahead::Terminal(t)` ↦ code of `t`, `Lookahead::Eof` ↦ `nT`
  (`Terminal(_) < Eof`);
* `Symbol::Terminal(t)` ↦ key `code t`, `Symbol::Nonterminal(n)` ↦ key `nT + code n`
  (`Terminal(_) < Nonterminal(_)`).

`while let` loops take fuel and return `none` when it runs out.
-/
import KikiVerif.Model.Oset
import KikiVerif.Model.Ast
import KikiVerif.LR.Gen

namespace KikiVerif
namespace Machine
open LR (Sym Rule Grammar)

/-- the grammar in coded form, with the sizes of the two alphabets -/
structure Ctx where
  g : Grammar Nat Nat
  nT : Nat
  nN : Nat

def Ctx.numRules (c : Ctx) : Nat := c.g.rules.length

structure Item where
  rule : Nat
  la : Nat
  dot : Nat
deriving DecidableEq, Repr

instance : Ord Item :=
  ⟨fun a b => (compare a.rule b.rule).then ((compare a.la b.la).then (compare a.dot b.dot))⟩

abbrev State := List Item          -- `State { items: Oset<StateItem> }`, the raw vector

structure Transition where
  frm : Nat
  to : Nat
  sym : Sym Nat Nat
deriving DecidableEq, Repr

def symKey (c : Ctx) : Sym Nat Nat → Nat
  | .t a => a
  | .n b => c.nT + b

def keySym (c : Ctx) (k : Nat) : Sym Nat Nat := if k < c.nT then .t k else .n (k - c.nT)

structure FirstSet where
  terminals : List Nat      -- `Oset<DollarlessTerminalName>`, raw
  eps : Bool
deriving DecidableEq, Repr

/-! ### FIRST sets (`first_set_map.rs`) -/

/-- `get_current_first_set_for_{named,tuple}_fieldset` (and `_for_empty_fieldset`);
`none` is the `unwrap` on a missing map entry -/
def currentFirst (fm : List FirstSet) : List (Sym Nat Nat) → FirstSet → Option FirstSet
  | [], out => some out
  | .t a :: _, out => some ⟨(Oset.extend ⟨out.terminals⟩ [a]).raw, false⟩
  | .n b :: rest, out =>
    match fm[b]? with
    | none => none
    | some f =>
      let out' : FirstSet := ⟨(Oset.extend ⟨out.terminals⟩ f.terminals).raw, out.eps⟩
      if f.eps then currentFirst fm rest out' else some ⟨out'.terminals, false⟩

/-- `add_all`: the new set and whether it differs from the old one -/
def addAll (new out : FirstSet) : FirstSet × Bool :=
  let ts := (Oset.extend ⟨out.terminals⟩ new.terminals).raw
  let eps := out.eps || new.eps
  (⟨ts, eps⟩, ts.length != out.terminals.length || eps != out.eps)

/-- `expand_rule` -/
def expandRule (fm : List FirstSet) (r : Rule Nat Nat) : Option (List FirstSet × Bool) :=
  match currentFirst fm r.rhs ⟨[], true⟩, fm[r.lhs]? with
  | some cur, some old =>
    let (new, ch) := addAll cur old
    some (fm.set r.lhs new, ch)
  | _, _ => none

/-- `expand`: one pass over all rules, the map being updated in place -/
def expand : List (Rule Nat Nat) → List FirstSet → Bool → Option (List FirstSet × Bool)
  | [], fm, ch => some (fm, ch)
  | r :: rs, fm, ch =>
    match expandRule fm r with
    | none => none
    | some (fm', ch') => expand rs fm' (ch || ch')

/-- the `loop` of `get_first_sets`; outer `none` = out of fuel, inner = panic -/
def firstLoop (rules : List (Rule Nat Nat)) : Nat → List FirstSet → Option (Option (List FirstSet))
  | 0, _ => none
  | fuel + 1, fm =>
    match expand rules fm false with
    | none => some none
    | some (fm', ch) => if ch then firstLoop rules fuel fm' else some (some fm')

def emptyFirst (nN : Nat) : List FirstSet := List.replicate nN ⟨[], false⟩

/-! ### closure -/

/-- `get_symbol_right_of_dot` -/
def rhsOf (c : Ctx) (rule : Nat) : List (Sym Nat Nat) :=
  if rule = c.numRules then [.n c.g.start]
  else match c.g.rules[rule]? with
    | some r => r.rhs
    | none => []

def symRightOfDot (c : Ctx) (it : Item) : Option (Sym Nat Nat) := (rhsOf c it.rule)[it.dot]?

/-- `get_first_of_symbol_sequence` -/
def firstOfSeq (fm : List FirstSet) : List (Sym Nat Nat) → List Nat → Option FirstSet
  | [], ts => some ⟨ts, true⟩
  | .t a :: _, ts => some ⟨(Oset.insert ⟨ts⟩ a).raw, false⟩
  | .n b :: rest, ts =>
    match fm[b]? with
    | none => none
    | some f =>
      let ts' := (Oset.extend ⟨ts⟩ f.terminals).raw
      if f.eps then firstOfSeq fm rest ts' else some ⟨ts', false⟩

/-- `get_augmented_first_after_dot` + `add_lookahead_if_needed`: the sorted
lookahead list (`Oset<Lookahead>`) -/
def augmentedFirst (fm : List FirstSet) (afterDot : List (Sym Nat Nat)) (la : Nat) : Option (List Nat) :=
  match firstOfSeq fm afterDot [] with
  | none => none
  | some f => if f.eps then some (Oset.ofList (f.terminals ++ [la])).raw else some (Oset.ofList f.terminals).raw

/-- `get_rule_indices_for_nonterminal` -/
def ruleIndicesFor (c : Ctx) (b : Nat) : List Nat :=
  (c.g.rules.zipIdx.filter (fun p => p.1.lhs == b)).map (·.2)

/-- `get_closure_implied_items` -/
def impliedItems (c : Ctx) (fm : List FirstSet) (it : Item) : Option (List Item) :=
  match symRightOfDot c it with
  | some (.n b) =>
    match augmentedFirst fm ((rhsOf c it.rule).drop (it.dot + 1)) it.la with
    | none => none
    | some las => some (las.flatMap fun la => (ruleIndicesFor c b).map fun r => ⟨r, la, 0⟩)
  | _ => some []

/-- the `while let` of `get_closure` -/
def closureLoop (c : Ctx) (fm : List FirstSet) : Nat → List Item → Oset Item → Option (Option State)
  | 0, _, _ => none
  | _ + 1, [], acc => some (some acc.raw)
  | fuel + 1, q :: qs, acc =>
    if acc.contains q then closureLoop c fm fuel qs acc
    else match impliedItems c fm q with
      | none => some none
      | some imp => closureLoop c fm fuel (qs ++ imp) (acc.insert q)

/-! ### the worklist (`UnnormalizedMachineBuilder`) -/

structure Builder where
  states : List State
  transitions : List Transition        -- HashSet: insert if absent; order immaterial
  queue : List Nat
deriving Repr

/-- `is_core_subset` / `are_cores_equal` -/
def isCoreSubset (a b : State) : Bool :=
  a.all fun x => b.any fun y => x.rule == y.rule && x.dot == y.dot
def areCoresEqual (a b : State) : Bool := isCoreSubset a b && isCoreSubset b a

/-- `get_index_of_mergable` -/
def indexOfMergable (states : List State) (s : State) : Option Nat :=
  states.findIdx? (fun e => areCoresEqual s e)

/-- `add_items_if_needed`: the new state and whether an item was added -/
def addItemsIfNeeded : Oset Item → List Item → Bool → Oset Item × Bool
  | st, [], added => (st, added)
  | st, it :: rest, added =>
    if st.contains it then addItemsIfNeeded st rest added
    else addItemsIfNeeded (st.insert it) rest true

/-- `enqueue_state_if_needed` -/
def enqueueStateIfNeeded (b : Builder) (s : State) : Builder × Nat :=
  match indexOfMergable b.states s with
  | some i =>
    let old := b.states.getD i []
    let (new, added) := addItemsIfNeeded ⟨old⟩ s false
    ({ b with states := b.states.set i new.raw,
              queue := if added then b.queue ++ [i] else b.queue }, i)
  | none =>
    let i := b.states.length
    ({ b with states := b.states ++ [s], queue := b.queue ++ [i] }, i)

/-- `advance` / `get_transition_items` -/
def transitionItems (c : Ctx) (s : State) (x : Sym Nat Nat) : List Item :=
  s.filterMap fun it => if symRightOfDot c it = some x then some { it with dot := it.dot + 1 } else none

/-- `get_symbols_right_of_dot` (sorted keys) -/
def symbolsRightOfDot (c : Ctx) (s : State) : List Nat :=
  (Oset.ofList (s.filterMap fun it => (symRightOfDot c it).map (symKey c))).raw

def insertTransition (ts : List Transition) (t : Transition) : List Transition :=
  if ts.contains t then ts else ts ++ [t]

/-- `enqueue_transition_target`; `closureFuel` is the fuel handed to `get_closure` -/
def enqueueTransitionTarget (c : Ctx) (fm : List FirstSet) (closureFuel : Nat)
    (b : Builder) (i : Nat) (x : Sym Nat Nat) : Option (Option Builder) :=
  let src := b.states.getD i []
  match closureLoop c fm closureFuel (transitionItems c src x) Oset.new with
  | none => none
  | some none => some none
  | some (some tgt) =>
    let (b', j) := enqueueStateIfNeeded b tgt
    some (some { b' with transitions := insertTransition b'.transitions ⟨i, j, x⟩ })

/-- the `for symbol in &next_symbols` loop of `enqueue_transition_targets` -/
def enqueueTargets (c : Ctx) (fm : List FirstSet) (closureFuel : Nat) (i : Nat) :
    List Nat → Builder → Option (Option Builder)
  | [], b => some (some b)
  | k :: ks, b =>
    match enqueueTransitionTarget c fm closureFuel b i (keySym c k) with
    | none => none
    | some none => some none
    | some (some b') => enqueueTargets c fm closureFuel i ks b'

/-- the `while let Some(state_index) = self.queue.pop_front()` loop of `build` -/
def buildLoop (c : Ctx) (fm : List FirstSet) (closureFuel : Nat) : Nat → Builder → Option (Option Builder)
  | 0, _ => none
  | _ + 1, ⟨states, trans, []⟩ => some (some ⟨states, trans, []⟩)
  | fuel + 1, ⟨states, trans, i :: q⟩ =>
    let b : Builder := ⟨states, trans, q⟩
    match enqueueTargets c fm closureFuel i (symbolsRightOfDot c (states.getD i [])) b with
    | none => none
    | some none => some none
    | some (some b') => buildLoop c fm closureFuel fuel b'

/-! ### normalisation -/

structure Machine where
  start : Nat
  states : List State                 -- `Oset<State>`, raw
  transitions : List Transition       -- `Oset<Transition>`, raw
deriving Repr

/-- `Symbol`'s derived order: `Terminal(_) < Nonterminal(_)`, then by name -/
def symTag : Sym Nat Nat → Nat
  | .t _ => 0
  | .n _ => 1
def symVal : Sym Nat Nat → Nat
  | .t x => x
  | .n x => x

instance : Ord Transition :=
  ⟨fun a b => (compare a.frm b.frm).then ((compare a.to b.to).then
    ((compare (symTag a.sym) (symTag b.sym)).then (compare (symVal a.sym) (symVal b.sym))))⟩

def leState (a b : State) : Bool := compare a b != .gt

/-- `get_sorted_indexed`: stable sort of `(old index, state)` by state -/
def sortedIndexed (states : List State) : List (State × Nat) :=
  states.zipIdx.mergeSort (fun a b => leState a.1 b.1)

/-- `IndexUpdater::update`: position of the pair with that old index -/
def updateIndex (sorted : List (State × Nat)) (old : Nat) : Option Nat :=
  sorted.findIdx? (fun p => p.2 == old)

/-- `normalize_machine`; `none` = an index lookup failed (`index_map[i]` panics) -/
def normalize (b : Builder) : Option Machine :=
  let sorted := sortedIndexed b.states
  let upd := updateIndex sorted
  let trans := b.transitions.mapM fun t =>
    match upd t.frm, upd t.to with
    | some f, some t' => some (⟨f, t', t.sym⟩ : Transition)
    | _, _ => none
  match trans, upd 0 with
  | some ts, some s =>
    some { start := s,
           states := (Oset.ofList (sorted.map (·.1))).raw,
           transitions := (Oset.ofList ts).raw }
  | _, _ => none

/-- fuel that is always enough is established in `Proofs/`; the driver uses these -/
def defaultFuel (c : Ctx) : Nat := (c.numRules + 2) * (c.nT + 2) * 64 + 100000

/-- `get_first_sets` -/
def firstSets (c : Ctx) (fuel : Nat) : Option (Option (List FirstSet)) :=
  firstLoop c.g.rules fuel (emptyFirst c.nN)

/-- `validated_ast_to_machine` on the coded grammar -/
def machineOf (c : Ctx) (fuel : Nat) : Option (Option Machine) :=
  match firstSets c fuel with
  | none => none
  | some none => some none
  | some (some fm) =>
    match closureLoop c fm fuel [⟨c.numRules, c.nT, 0⟩] Oset.new with
    | none => none
    | some none => some none
    | some (some start) =>
      match buildLoop c fm fuel fuel ⟨[start], [], [0]⟩ with
      | none => none
      | some none => some none
      | some (some b) => some (normalize b)

end Machine
end KikiVerif
