/-
Model of `machine_to_table.rs` and `data/table.rs`.

The two `HashMap`s of `TableBuilder` are association lists keyed by
`(state, column)`; `build_as_is` iterates over them in hash order, which the
model takes as *any* order (`buildAsIs` below folds over the list it is given;
C14 proves the result does not depend on the order because keys are distinct).

Columns are terminal codes (`nT` = Eof) and nonterminal codes; the emitted text
lists them in declaration order (see `Emit`).
-/
import KikiVerif.Model.Machine

namespace KikiVerif
namespace Table
open Machine
open LR (Sym Action)

structure Table where
  start : Nat
  nT : Nat
  nN : Nat
  nStates : Nat
  actions : List Action            -- flat: state * (nT + 1) + column
  gotos : List (Option Nat)        -- flat: state * nN + column
deriving Repr

inductive TRes (α : Type) where
  | ok (a : α)
  | conflict (state : Nat) (existing new : Item)
  | panic (site : String)
deriving Repr

structure TB where
  actions : List ((Nat × Nat) × (Item × Action))
  gotos : List ((Nat × Nat) × Nat)
deriving Repr

/-- `TableBuilder::set_action` -/
def setAction (tb : TB) (state col : Nat) (item : Item) (a : Action) : TRes TB :=
  match tb.actions.lookup (state, col) with
  | some (existing, ea) => if ea = a then .ok tb else .conflict state existing item
  | none => .ok { tb with actions := tb.actions ++ [((state, col), (item, a))] }

/-- `Machine::get_shift_dest` -/
def getShiftDest (m : Machine) (state t : Nat) : Option Nat :=
  (m.transitions.find? fun tr => tr.frm == state && tr.sym == .t t).map (·.to)

/-- `add_item_action_to_table` -/
def addItemAction (c : Ctx) (m : Machine) (tb : TB) (state : Nat) (it : Item) : TRes TB :=
  if it.rule = c.numRules then
    if it.dot = 0 then .ok tb else setAction tb state c.nT it .accept
  else
    match c.g.rules[it.rule]? with
    | none => .panic "machine_to_table.rs: self.rules[rule_index]"
    | some r =>
      if it.dot = r.rhs.length then setAction tb state it.la it (.reduce it.rule)
      else match r.rhs[it.dot]? with
        | none => .panic "ast.rs: Fieldset::get_symbol_ident index"
        | some (.t t) =>
          match getShiftDest m state t with
          | none => .panic "machine_to_table.rs: get_shift_dest(..).unwrap()"
          | some dest => setAction tb state t it (.shift dest)
        | some (.n _) => .ok tb

/-- `add_state_actions_to_table` -/
def addStateActions (c : Ctx) (m : Machine) (state : Nat) : List Item → TB → TRes TB
  | [], tb => .ok tb
  | it :: rest, tb =>
    match addItemAction c m tb state it with
    | .ok tb' => addStateActions c m state rest tb'
    | .conflict s a b => .conflict s a b
    | .panic s => .panic s

/-- `add_actions_to_table` -/
def addActions (c : Ctx) (m : Machine) : List State → Nat → TB → TRes TB
  | [], _, tb => .ok tb
  | st :: rest, i, tb =>
    match addStateActions c m i st tb with
    | .ok tb' => addActions c m rest (i + 1) tb'
    | .conflict s a b => .conflict s a b
    | .panic s => .panic s

/-- `add_gotos_to_table` (with `set_goto`'s "impossible" panic) -/
def addGotos : List Transition → TB → TRes TB
  | [], tb => .ok tb
  | tr :: rest, tb =>
    match tr.sym with
    | .t _ => addGotos rest tb
    | .n b =>
      match tb.gotos.lookup (tr.frm, b) with
      | some _ => .panic "machine_to_table.rs: Impossible: goto conflict"
      | none => addGotos rest { tb with gotos := tb.gotos ++ [((tr.frm, b), tr.to)] }

def setChecked {α} (l : List α) (i : Nat) (x : α) : Option (List α) :=
  if i < l.length then some (l.set i x) else none

/-- `Table::set_action` / `set_goto` with their range checks -/
def writeAction (t : Table) (state col : Nat) (a : Action) : Option Table :=
  if col ≤ t.nT ∧ state < t.nStates then
    (setChecked t.actions (state * (t.nT + 1) + col) a).map fun l => { t with actions := l }
  else none

def writeGoto (t : Table) (state col : Nat) (s : Nat) : Option Table :=
  if col < t.nN ∧ state < t.nStates then
    (setChecked t.gotos (state * t.nN + col) (some s)).map fun l => { t with gotos := l }
  else none

/-- `get_empty_table` -/
def emptyTable (c : Ctx) (m : Machine) : Table :=
  { start := m.start, nT := c.nT, nN := c.nN, nStates := m.states.length,
    actions := List.replicate (m.states.length * (c.nT + 1)) .err,
    gotos := List.replicate (m.states.length * c.nN) none }

/-- `build_as_is`, for the iteration orders `acts`, `gts` of the two maps -/
def buildAsIs (t : Table) (acts : List ((Nat × Nat) × (Item × Action))) (gts : List ((Nat × Nat) × Nat)) : Option Table :=
  let t1 := acts.foldlM (fun t e => writeAction t e.1.1 e.1.2 e.2.2) t
  t1.bind fun t => gts.foldlM (fun t e => writeGoto t e.1.1 e.1.2 e.2) t

/-- `machine_to_table` -/
def machineToTable (c : Ctx) (m : Machine) : TRes Table :=
  match addActions c m m.states 0 ⟨[], []⟩ with
  | .conflict s a b => .conflict s a b
  | .panic s => .panic s
  | .ok tb =>
    match addGotos m.transitions tb with
    | .conflict s a b => .conflict s a b
    | .panic s => .panic s
    | .ok tb' =>
      match buildAsIs (emptyTable c m) tb'.actions tb'.gotos with
      | some t => .ok t
      | none => .panic "table.rs: action_index / goto_index"

def Table.action (t : Table) (state col : Nat) : Action := t.actions.getD (state * (t.nT + 1) + col) .err
def Table.goto (t : Table) (state col : Nat) : Option Nat := (t.gotos.getD (state * t.nN + col) none)

end Table
end KikiVerif
