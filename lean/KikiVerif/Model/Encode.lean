/-
From the validated file to the coded grammar (`Machine.Ctx`): a terminal's code
is the rank of its name among the declared terminal names in byte order, a
nonterminal's code the rank of its name among the declared nonterminal names.
See the header of `Machine.lean` for why ranks are used.

`encode` fails (`none`) exactly when a rule mentions a symbol that is not
declared with the right kind — the situation in which the Rust code would
panic on a FIRST-map `unwrap` or a table-column `expect`.
-/
import KikiVerif.Model.Machine

namespace KikiVerif
namespace Encode
open Machine
open LR (Sym Rule Grammar)

structure Enc where
  ctx : Ctx
  tsorted : List Str        -- terminal names, ascending; code = index
  nsorted : List Str        -- nonterminal names, ascending; code = index
  tdecl : List Nat          -- codes of the terminals in declaration order
  ndecl : List Nat          -- codes of the nonterminals in declaration order

def sortNames (l : List Str) : List Str := (Oset.ofList l).raw

def codeSym (ts ns : List Str) : Ast.SymId → Option (Sym Nat Nat)
  | .t i => (ts.idxOf? i.name).map .t
  | .n i => (ns.idxOf? i.name).map .n

def encode (f : VFile.File) : Option Enc := do
  let ts := sortNames (f.tenum.variants.map (·.name))
  let ns := sortNames (f.nonterminals.map (·.name))
  let rules ← f.rules.mapM fun r => do
    let lhs ← ns.idxOf? r.ctor.typeName
    let rhs ← r.fieldset.syms.mapM (codeSym ts ns)
    pure (⟨lhs, rhs⟩ : Rule Nat Nat)
  let start ← ns.idxOf? f.start
  let tdecl ← (f.tenum.variants.map (·.name)).mapM ts.idxOf?
  let ndecl ← (f.nonterminals.map (·.name)).mapM ns.idxOf?
  pure { ctx := { g := { rules := rules, start := start }, nT := ts.length, nN := ns.length },
         tsorted := ts, nsorted := ns, tdecl := tdecl, ndecl := ndecl }

end Encode
end KikiVerif
