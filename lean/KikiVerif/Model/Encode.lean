/-
From the validated file to the coded grammar (`Machine.Ctx`): a terminal's code
is the rank of its name among the declared terminal names in byte order, a
nonterminal's code the rank of its name among the declared nonterminal names.
See the header of `Machine.lean` for why ranks are used.

`encode` fails (`none`) exactly when a rule mentions a symbol that is not
declared with the right kind — the situation in which the Rust code would
panic on a FIRST-map `unwrap` or a table-column `expect`.
-/
import KikiVerif.Model.Machine

namespace KikiVerif
namespace Encode
open Machine
open LR (Sym Rule Grammar)

structure Enc where
  ctx : Ctx
  tsorted : List Str        -- terminal names, ascending; code = index
  nsorted : List Str        -- nonterminal names, ascending; code = index
  tdecl : List Nat          -- codes of the terminals in declaration order
  ndecl : List Nat          -- codes of the nonterminals in declaration order

def sortNames (l : List Str) : List Str := (Oset.ofList l).raw

def codeSym (ts ns : List Str) : Ast.SymId → Option (Sym Nat Nat)
  | .t i => (ts.idxOf? i.name).map .t
  | .n i => (ns.idxOf? i.name).map .n

def codeRule (ts ns : List Str) (r : VFile.Rule) : Option (Rule Nat Nat) :=
  match ns.idxOf? r.ctor.typeName, r.fieldset.syms.mapM (codeSym ts ns) with
  | some lhs, some rhs => some ⟨lhs, rhs⟩
  | _, _ => none

def encode (f : VFile.File) : Option Enc :=
  let ts := sortNames (f.tenum.variants.map (·.name))
  let ns := sortNames (f.nonterminals.map (·.name))
  match f.rules.mapM (codeRule ts ns), ns.idxOf? f.start,
        (f.tenum.variants.map (·.name)).mapM ts.idxOf?, (f.nonterminals.map (·.name)).mapM ns.idxOf? with
  | some rules, some start, some tdecl, some ndecl =>
    some { ctx := { g := { rules := rules, start := start }, nT := ts.length, nN := ns.length },
           tsorted := ts, nsorted := ns, tdecl := tdecl, ndecl := ndecl }
  | _, _, _, _ => none

end Encode
end KikiVerif
