/-
Model of `kiki/src/pipeline/validate_ast/*.rs`, in the Rust evaluation order
(the first error met is the one returned).  `HashMap<String, ByteIndex>` is an
association list (only `get`/`insert` of fresh keys are used); `HashSet<String>`
membership is list membership.
-/
import KikiVerif.Model.Ast

namespace KikiVerif
namespace Validate
open Ast Text

/-- `type_to_string` / `path_to_string` / `complex_to_string` -/
def pathToString (p : List Ident) : Str := join "::".toList (p.map (·.name))

mutual
def typeToString : Ty → Str
  | .unit => "()".toList
  | .path p => pathToString p
  | .complex callee args => pathToString callee ++ ['<'] ++ join ", ".toList (typesToStrings args) ++ ['>']
def typesToStrings : List Ty → List Str
  | [] => []
  | t :: ts => typeToString t :: typesToStrings ts
end

/-- `validate_uppercase_start` -/
def validateUppercaseStart (name : Str) (pos : Nat) : Res Unit :=
  match name.find? isAsciiAlpha with
  | none => .ok ()
  | some c => if isAsciiUpper c then .ok () else .err (.notUppercase pos)

/-- `assert_lowercase_start` -/
def assertLowercaseStart (name : Str) (pos : Nat) : Res Unit :=
  match name.find? isAsciiAlpha with
  | none => .ok ()
  | some c => if isAsciiLower c then .ok () else .err (.notLowercase pos)

def terminals (f : File) : List TermEnum :=
  f.items.filterMap fun | .terminal t => some t | _ => none

/-- `get_unvalidated_terminal_enum` -/
def getUnvalidatedTerminalEnum (f : File) : Res TermEnum :=
  match terminals f with
  | [] => .err .noTerminalEnum
  | [t] => .ok t
  | ts => .err (.multipleTerminalEnums (ts.map (·.name.pos)))

/-- `validate_terminal_variants` (a `collect::<Result<..>>`: first error wins) -/
def validateTerminalVariants : List TermVariant → Res (List VFile.TermVariant)
  | [] => .ok []
  | v :: vs => do
    validateUppercaseStart v.name.name v.name.dpos
    let rest ← validateTerminalVariants vs
    pure (⟨Tokenize.removeDollars v.name.name, typeToString v.ty⟩ :: rest)

/-- `get_terminal_enum` -/
def getTerminalEnum (f : File) : Res VFile.TermEnum := do
  let t ← getUnvalidatedTerminalEnum f
  validateUppercaseStart t.name.name t.name.pos
  let vs ← validateTerminalVariants t.variants
  pure ⟨t.attrs, t.name.name, vs⟩

abbrev Seen := List (Str × Nat)

/-- `define_nonterminal` / `define_terminal_variant` / `define_terminal_enum_name` -/
def define (seen : Seen) (name : Str) (pos : Nat) : Res Seen :=
  match seen.lookup name with
  | some old => .err (.nameClash name old pos)
  | none => .ok (seen ++ [(name, pos)])

/-- `define_nonterminals` -/
def defineNonterminals : Seen → List Item → Res Seen
  | seen, [] => .ok seen
  | seen, .struct s :: rest => do let seen' ← define seen s.name.name s.name.pos; defineNonterminals seen' rest
  | seen, .enum e :: rest => do let seen' ← define seen e.name.name e.name.pos; defineNonterminals seen' rest
  | seen, _ :: rest => defineNonterminals seen rest

/-- `define_terminal_variants` -/
def defineTerminalVariants : Seen → List TermVariant → Res Seen
  | seen, [] => .ok seen
  | seen, v :: rest => do let seen' ← define seen v.name.name v.name.dpos; defineTerminalVariants seen' rest

/-- `get_defined_symbol_positions` -/
def getDefinedSymbolPositions (f : File) : Res Seen := do
  let seen ← defineNonterminals [] f.items
  let t ← getUnvalidatedTerminalEnum f
  defineTerminalVariants seen t.variants

/-- `DefinedSymbols` -/
structure Defined where
  nonterminals : List Str
  terminals : List Str

/-- `get_defined_symbols` -/
def getDefinedSymbols (f : File) : Res Defined := do
  let _ ← getDefinedSymbolPositions f
  let nts := f.items.filterMap fun
    | .struct s => some s.name.name
    | .enum e => some e.name.name
    | _ => none
  let t ← getUnvalidatedTerminalEnum f
  pure ⟨nts, t.variants.map (·.name.name)⟩

/-- `assert_symbol_is_defined` -/
def assertSymbolIsDefined (d : Defined) : SymId → Res Unit
  | .n i => if d.nonterminals.contains i.name then .ok () else .err (.undefinedNonterminal i.name i.pos)
  | .t i => if d.terminals.contains i.name then .ok () else .err (.undefinedTerminal i.name i.dpos)

def assertNamedFields (d : Defined) : List NamedField → Res Unit
  | [] => .ok ()
  | f :: fs => do
    match f.name with
    | .us _ => pure ()
    | .id i => assertLowercaseStart i.name i.pos
    assertSymbolIsDefined d f.sym
    assertNamedFields d fs

def assertTupleFields (d : Defined) : List TupleField → Res Unit
  | [] => .ok ()
  | f :: fs => do
    assertSymbolIsDefined d f.sym
    assertTupleFields d fs

/-- `assert_fieldset_is_valid` -/
def assertFieldsetIsValid (d : Defined) : Fieldset → Res Unit
  | .empty => .ok ()
  | .named fs => assertNamedFields d fs
  | .tuple fs => assertTupleFields d fs

/-- `assert_variants_have_unique_names` -/
def assertUniqueNames : Seen → List Variant → Res Unit
  | _, [] => .ok ()
  | seen, v :: vs =>
    match seen.lookup v.name.name with
    | some old => .err (.variantNameClash v.name.name old v.name.pos)
    | none => assertUniqueNames (seen ++ [(v.name.name, v.name.pos)]) vs

/-- `get_field_symbol_sequence` -/
def fieldSymbolSequence (v : Variant) : List Sym' := v.fieldset.syms.map (·.toSym)

/-- `assert_variants_have_unique_field_symbol_sequences` -/
def assertUniqueSeqs : List (List Sym' × Nat) → List Variant → Res Unit
  | _, [] => .ok ()
  | seen, v :: vs =>
    let seq := fieldSymbolSequence v
    match seen.lookup seq with
    | some old => .err (.variantSeqClash seq old v.name.pos)
    | none => assertUniqueSeqs (seen ++ [(seq, v.name.pos)]) vs

def assertEachVariant (d : Defined) : List Variant → Res Unit
  | [] => .ok ()
  | v :: vs => do
    validateUppercaseStart v.name.name v.name.pos
    assertFieldsetIsValid d v.fieldset
    assertEachVariant d vs

/-- `validate_nonterminal` (struct or enum) over the items, in order -/
def validateNonterminals (d : Defined) : List Item → Res (List VFile.Nonterminal)
  | [] => .ok []
  | .struct s :: rest => do
    validateUppercaseStart s.name.name s.name.pos
    assertFieldsetIsValid d s.fieldset
    let r ← validateNonterminals d rest
    pure (.struct s :: r)
  | .enum e :: rest => do
    validateUppercaseStart e.name.name e.name.pos
    assertUniqueNames [] e.variants
    assertUniqueSeqs [] e.variants
    assertEachVariant d e.variants
    let r ← validateNonterminals d rest
    pure (.enum e :: r)
  | _ :: rest => validateNonterminals d rest

/-- `get_nonterminals` -/
def getNonterminals (f : File) : Res (List VFile.Nonterminal) := do
  let d ← getDefinedSymbols f
  validateNonterminals d f.items

def starts (f : File) : List Ident :=
  f.items.filterMap fun | .start i => some i | _ => none

/-- `get_start_symbol_name` -/
def getStartSymbolName (f : File) (nts : List VFile.Nonterminal) : Res Str :=
  match starts f with
  | [] => .err .noStartSymbol
  | [s] =>
    if nts.any (·.name == s.name) then .ok s.name
    else .err (.undefinedNonterminal s.name s.pos)
  | ss => .err (.multipleStartSymbols (ss.map (·.pos)))

/-- `assert_there_are_no_top_level_name_clashes` -/
def assertNoTopLevelNameClashes (f : File) : Res Unit := do
  let seen ← getDefinedSymbolPositions f
  let t ← getUnvalidatedTerminalEnum f
  let _ ← define seen t.name.name t.name.pos
  pure ()

/-- `validate_ast` -/
def validateAst (f : File) : Res VFile.File := do
  let tenum ← getTerminalEnum f
  let nts ← getNonterminals f
  let start ← getStartSymbolName f nts
  assertNoTopLevelNameClashes f
  pure ⟨start, tenum, nts⟩

end Validate
end KikiVerif
