/-
Model of `kiki/src/pipeline/tokenize.rs`, one Rust function per Lean function,
same names (snake_case → camelCase).  Byte indices are explicit; every slice of
the source goes through `Text.sliceBytes`, whose `none` is the Rust panic.
-/
import KikiVerif.Model.Text

namespace KikiVerif

/-- `data::KikiErr`, without the table-conflict payload (added in `Generate`). -/
inductive Sym' where
  | t (name : Str)
  | n (name : Str)
deriving DecidableEq, Repr

inductive KErr where
  | lex (i : Nat) (c : Option Char)
  | parse (a : Nat) (content : Str) (b : Nat)
  | noStartSymbol
  | multipleStartSymbols (ps : List Nat)
  | noTerminalEnum
  | multipleTerminalEnums (ps : List Nat)
  | notUppercase (p : Nat)
  | notLowercase (p : Nat)
  | nameClash (name : Str) (p q : Nat)
  | variantNameClash (name : Str) (p q : Nat)
  | variantSeqClash (syms : List Sym') (p q : Nat)
  | undefinedNonterminal (name : Str) (p : Nat)
  | undefinedTerminal (name : Str) (p : Nat)
deriving DecidableEq, Repr

/-- Outcome of a modelled computation: a value, a `KikiErr`, or a Rust panic
(with the site as payload). -/
inductive Res (α : Type) where
  | ok (a : α)
  | err (e : KErr)
  | panic (site : String)
deriving Repr

namespace Res
@[inline] def bind {α β} (r : Res α) (f : α → Res β) : Res β :=
  match r with
  | .ok a => f a
  | .err e => .err e
  | .panic s => .panic s
instance : Monad Res where
  pure := .ok
  bind := bind
def ofOption {α} (site : String) : Option α → Res α
  | some a => .ok a
  | none => .panic site
end Res

/-- `parser::Token` (payloads inlined) -/
inductive Token where
  | underscore (p : Nat)
  | ident (name : Str) (p : Nat)
  | termIdent (name : Str) (dollarlessPos : Nat)
  | attr (src : Str) (p : Nat)
  | startKw (p : Nat)
  | structKw (p : Nat)
  | enumKw (p : Nat)
  | terminalKw (p : Nat)
  | colon (p : Nat)
  | dcolon (p : Nat)
  | comma (p : Nat)
  | lparen (p : Nat)
  | rparen (p : Nat)
  | lcurly (p : Nat)
  | rcurly (p : Nat)
  | langle (p : Nat)
  | rangle (p : Nat)
deriving DecidableEq, Repr

namespace Tokenize
open Text

inductive State where
  | main
  | slash (i : Nat)
  | comment
  | ident (s e : Nat)
  | dollar (i : Nat)
  | termIdent (s e : Nat)
  | colon (i : Nat)
  | pound (i : Nat)
  | attr (s cnt e : Nat)
deriving DecidableEq, Repr

structure Tk where
  out : List Token        -- in order (Rust pushes at the end)
  state : State
deriving Repr

/-- `get_reserved_word_kind` + `get_reserved_word_token` -/
def reservedWordToken (name : Str) (p : Nat) : Option Token :=
  if name = "_".toList then some (.underscore p)
  else if name = "start".toList then some (.startKw p)
  else if name = "struct".toList then some (.structKw p)
  else if name = "enum".toList then some (.enumKw p)
  else if name = "terminal".toList then some (.terminalKw p)
  else none

/-- `get_single_char_punctuation_kind` + `get_single_char_punctuation_token` -/
def punctToken (c : Char) (p : Nat) : Option Token :=
  if c = ':' then some (.colon p)
  else if c = ',' then some (.comma p)
  else if c = '(' then some (.lparen p)
  else if c = ')' then some (.rparen p)
  else if c = '{' then some (.lcurly p)
  else if c = '}' then some (.rcurly p)
  else if c = '<' then some (.langle p)
  else if c = '>' then some (.rangle p)
  else none

def isOpener (c : Char) : Bool := c = '(' || c = '[' || c = '{'
def isCloser (c : Char) : Bool := c = ')' || c = ']' || c = '}'
def bracketsMatch (o c : Char) : Bool :=
  (o = '(' && c = ')') || (o = '[' && c = ']') || (o = '{' && c = '}')

/-- the loop of `assert_outer_attribute_brackets_match` over the chars of the
slice; `i` is the absolute byte index of the next char -/
def bracketScan : Str → Nat → List Char → Res Unit
  | [], _, _ => .ok ()
  | c :: cs, i, stack =>
    if isOpener c then bracketScan cs (i + clen c) (c :: stack)
    else if isCloser c then
      match stack with
      | [] => .err (.lex i (some c))
      | top :: stack' =>
        if bracketsMatch top c then bracketScan cs (i + clen c) stack'
        else .err (.lex i (some c))
    else bracketScan cs (i + clen c) stack

/-- `assert_outer_attribute_brackets_match` -/
def assertBrackets (src : Str) (start e : Nat) : Res Unit := do
  let sl ← Res.ofOption "tokenize.rs:assert_outer_attribute_brackets_match slice" (sliceBytes src (start + 1) e)
  bracketScan sl (start + 1) []

/-- `finish_outer_attribute` -/
def finishOuterAttribute (src : Str) (tk : Tk) (start e : Nat) : Res Tk := do
  assertBrackets src start e
  let sl ← Res.ofOption "tokenize.rs:finish_outer_attribute slice" (sliceBytes src start e)
  pure { out := tk.out ++ [.attr sl start], state := .main }

/-- `DollarlessTerminalName::remove_dollars` -/
def removeDollars (s : Str) : Str := s.filter (· != '$')

/-- `push_pending_token_and_reset_state` -/
def pushPending (src : Str) (tk : Tk) (current : Option Char) (currentIndex : Nat) : Res Tk :=
  match tk.state with
  | .main => .ok { tk with state := .main }
  | .slash i => .err (.lex i (some '/'))
  | .comment => .ok { tk with state := .main }
  | .ident s e => do
    let name ← Res.ofOption "tokenize.rs:push_pending ident slice" (sliceBytes src s e)
    match reservedWordToken name s with
    | some t => pure { out := tk.out ++ [t], state := .main }
    | none => pure { out := tk.out ++ [.ident name s], state := .main }
  | .dollar i => .err (.lex i (some '$'))
  | .termIdent s e => do
    let raw ← Res.ofOption "tokenize.rs:push_pending terminal ident slice" (sliceBytes src s e)
    let name := removeDollars raw
    if (reservedWordToken name 0).isSome then .err (.lex currentIndex current)
    else pure { out := tk.out ++ [.termIdent name (s + 1)], state := .main }
  | .colon i => .ok { out := tk.out ++ [.colon i], state := .main }
  | .pound i => .err (.lex i (some '#'))
  | .attr s _ e => do
    assertBrackets src s e
    .err (.lex currentIndex current)

/-- `handle_char_given_state_is_main` -/
def handleMain (tk : Tk) (c : Char) (i : Nat) : Res Tk :=
  if isWhitespace c then .ok tk
  else if c = '/' then .ok { tk with state := .slash i }
  else if isAsciiAlpha c || c = '_' then .ok { tk with state := .ident i (i + clen c) }
  else if c = '$' then .ok { tk with state := .dollar i }
  else if c = ':' then .ok { tk with state := .colon i }
  else if c = '#' then .ok { tk with state := .pound i }
  else match punctToken c i with
    | some t => .ok { tk with out := tk.out ++ [t] }
    | none => .err (.lex i (some c))

/-- `handle_char`.  After a successful `push_pending_token_and_reset_state` the
state is `Main`, so the recursive `self.handle_char(..)` in the Rust code is
`handle_char_given_state_is_main`. -/
def handleChar (src : Str) (tk : Tk) (c : Char) (i : Nat) : Res Tk :=
  match tk.state with
  | .main => handleMain tk c i
  | .slash s => if c = '/' then .ok { tk with state := .comment } else .err (.lex s (some '/'))
  | .comment => if c = '\n' then .ok { tk with state := .main } else .ok tk
  | .ident s e =>
    if isAsciiAlnum c || c = '_' then .ok { tk with state := .ident s (e + clen c) }
    else do let tk' ← pushPending src tk (some c) i; handleMain tk' c i
  | .dollar d =>
    if isAsciiAlpha c || c = '_' then .ok { tk with state := .termIdent d (d + 1 + clen c) }
    else .err (.lex d (some '$'))
  | .termIdent s e =>
    if isAsciiAlnum c || c = '_' then .ok { tk with state := .termIdent s (e + clen c) }
    else do let tk' ← pushPending src tk (some c) i; handleMain tk' c i
  | .colon s =>
    if c = ':' then .ok { out := tk.out ++ [.dcolon s], state := .main }
    else do let tk' ← pushPending src tk (some c) i; handleMain tk' c i
  | .pound s =>
    if c = '[' then .ok { tk with state := .attr s 1 (i + 1) }
    else do let tk' ← pushPending src tk (some c) i; handleMain tk' c i
  | .attr s cnt e =>
    if isOpener c then .ok { tk with state := .attr s (cnt + 1) (e + clen c) }
    else if isCloser c then
      if cnt = 1 then finishOuterAttribute src tk s (e + clen c)
      else .ok { tk with state := .attr s (cnt - 1) (e + clen c) }
    else if c = '\n' then do
      assertBrackets src s e
      .err (.lex i (some c))
    else .ok { tk with state := .attr s cnt (e + clen c) }

/-- the `for (c_index, c) in self.src.char_indices()` loop -/
def loop (src : Str) : Str → Nat → Tk → Res Tk
  | [], _, tk => .ok tk
  | c :: cs, i, tk =>
    match handleChar src tk c i with
    | .ok tk' => loop src cs (i + clen c) tk'
    | .err e => .err e
    | .panic s => .panic s

/-- `tokenize` -/
def tokenize (src : Str) : Res (List Token) :=
  match loop src src 0 { out := [], state := .main } with
  | .ok tk =>
    match pushPending src tk none (blen src) with
    | .ok tk' => .ok tk'.out
    | .err e => .err e
    | .panic s => .panic s
  | .err e => .err e
  | .panic s => .panic s

end Tokenize
end KikiVerif
