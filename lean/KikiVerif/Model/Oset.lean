/-
Model of `kiki::data::oset::Oset<T>`: a vector kept sorted and duplicate-free.

`slice::binary_search`, `sort`/`sort_unstable` and `dedup` belong to Rust's std
and are modelled by their contracts:

* `binary_search` on a strictly ascending slice: `Ok(i)` with `raw[i] == x`, or
  `Err(i)` with `i` the number of elements smaller than `x` — here a linear
  lower-bound scan (`search`);
* `sort` / `sort_unstable` followed by `dedup` — `List.mergeSort` followed by
  removal of adjacent duplicates (`dedupAdj`); equal elements are
  indistinguishable (`Ord` lawful), so stability is irrelevant.

The invariant (strictly ascending `raw`) is a separate theorem (`Proofs/Oset`,
property C18), not a subtype.
-/
namespace KikiVerif

structure Oset (α : Type) where
  raw : List α
deriving Repr

namespace Oset

variable {α : Type} [Ord α]

/-- `Oset::new` -/
def new : Oset α := ⟨[]⟩

/-- lower-bound scan: `(true, i)` = `Ok(i)`, `(false, i)` = `Err(i)` -/
def search (x : α) : List α → Nat → Bool × Nat
  | [], i => (false, i)
  | y :: ys, i =>
    match compare y x with
    | .lt => search x ys (i + 1)
    | .eq => (true, i)
    | .gt => (false, i)

/-- `Vec::insert(i, x)` -/
def insertAt (l : List α) (i : Nat) (x : α) : List α := l.take i ++ x :: l.drop i

/-- `Oset::insert` -/
def insert (s : Oset α) (x : α) : Oset α :=
  match search x s.raw 0 with
  | (true, _) => s
  | (false, i) => ⟨insertAt s.raw i x⟩

/-- `Oset::contains` -/
def contains (s : Oset α) (x : α) : Bool := (search x s.raw 0).1

/-- `Vec::dedup` (adjacent duplicates, `==` of the derived `PartialEq`; for a
lawful order this is `compare = .eq`) -/
def dedupAdj : List α → List α
  | [] => []
  | [x] => [x]
  | x :: y :: rest =>
    if compare x y == .eq then dedupAdj (y :: rest) else x :: dedupAdj (y :: rest)

def leB (a b : α) : Bool := compare a b != .gt

/-- `FromIterator::from_iter` -/
def ofList (l : List α) : Oset α := ⟨dedupAdj (l.mergeSort leB)⟩

/-- `Extend::extend` -/
def extend (s : Oset α) (l : List α) : Oset α := ⟨dedupAdj ((s.raw ++ l).mergeSort leB)⟩

/-- iteration / `Deref<Target = [T]>` -/
def toList (s : Oset α) : List α := s.raw

def length (s : Oset α) : Nat := s.raw.length

end Oset
end KikiVerif
