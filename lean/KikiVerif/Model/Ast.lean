/-
Model of `kiki/src/data/ast.rs` and `data/validated_file.rs` (the data only).
-/
import KikiVerif.Model.Tokenize

namespace KikiVerif
namespace Ast

structure Ident where
  name : Str
  pos : Nat
deriving DecidableEq, Repr

structure TermIdent where
  name : Str            -- dollarless
  dpos : Nat            -- dollarless_position
deriving DecidableEq, Repr

structure Attr where
  src : Str
  pos : Nat
deriving DecidableEq, Repr

/-- `IdentOrTerminalIdent` -/
inductive SymId where
  | n (i : Ident)
  | t (i : TermIdent)
deriving DecidableEq, Repr

/-- `IdentOrUnderscore` -/
inductive FieldName where
  | id (i : Ident)
  | us (p : Nat)
deriving DecidableEq, Repr

structure NamedField where
  name : FieldName
  sym : SymId
deriving DecidableEq, Repr

inductive TupleField where
  | used (s : SymId)
  | skipped (s : SymId)
deriving DecidableEq, Repr

inductive Fieldset where
  | empty
  | named (fs : List NamedField)
  | tuple (fs : List TupleField)
deriving DecidableEq, Repr

inductive Ty where
  | unit
  | path (p : List Ident)
  | complex (callee : List Ident) (args : List Ty)
deriving Repr

structure Struct where
  attrs : List Attr
  name : Ident
  fieldset : Fieldset
deriving DecidableEq, Repr

structure Variant where
  name : Ident
  fieldset : Fieldset
deriving DecidableEq, Repr

structure Enum where
  attrs : List Attr
  name : Ident
  variants : List Variant
deriving DecidableEq, Repr

structure TermVariant where
  name : TermIdent
  ty : Ty
deriving Repr

structure TermEnum where
  attrs : List Attr
  name : Ident
  variants : List TermVariant
deriving Repr

inductive Item where
  | start (i : Ident)
  | struct (s : Struct)
  | enum (e : Enum)
  | terminal (t : TermEnum)
deriving Repr

structure File where
  items : List Item
deriving Repr

def TupleField.sym : TupleField → SymId
  | .used s => s
  | .skipped s => s

def TupleField.isUsed : TupleField → Bool
  | .used _ => true
  | .skipped _ => false

def NamedField.isUsed (f : NamedField) : Bool :=
  match f.name with
  | .id _ => true
  | .us _ => false

/-- the field symbols of a fieldset, in order (`_` fields included) -/
def Fieldset.syms : Fieldset → List SymId
  | .empty => []
  | .named fs => fs.map (·.sym)
  | .tuple fs => fs.map (·.sym)

def Fieldset.len (f : Fieldset) : Nat := f.syms.length

/-- `impl From<cst::IdentOrTerminalIdent> for Symbol` -/
def SymId.toSym : SymId → Sym'
  | .n i => .n i.name
  | .t i => .t i.name

end Ast

/-! `data::validated_file` -/
namespace VFile

structure TermVariant where
  name : Str     -- dollarless_name
  ty : Str       -- type_ (already a string)
deriving DecidableEq, Repr

structure TermEnum where
  attrs : List Ast.Attr
  name : Str
  variants : List TermVariant
deriving DecidableEq, Repr

inductive Nonterminal where
  | struct (s : Ast.Struct)
  | enum (e : Ast.Enum)
deriving DecidableEq, Repr

def Nonterminal.name : Nonterminal → Str
  | .struct s => s.name.name
  | .enum e => e.name.name

structure File where
  start : Str
  tenum : TermEnum
  nonterminals : List Nonterminal
deriving DecidableEq, Repr

/-- `ConstructorName` -/
inductive Ctor where
  | struct (name : Str)
  | variant (enumName variantName : Str)
deriving DecidableEq, Repr

def Ctor.typeName : Ctor → Str
  | .struct n => n
  | .variant e _ => e

structure Rule where
  ctor : Ctor
  fieldset : Ast.Fieldset
deriving DecidableEq, Repr

/-- `File::get_rules` -/
def File.rules (f : File) : List Rule :=
  f.nonterminals.flatMap fun
    | .struct s => [⟨.struct s.name.name, s.fieldset⟩]
    | .enum e => e.variants.map fun v => ⟨.variant e.name.name v.name.name, v.fieldset⟩

/-- `File::get_defined_identifiers`, as a list (the Rust code builds a HashSet;
only membership is ever used) -/
def File.definedIdentifiers (f : File) : List Str :=
  f.nonterminals.map (·.name) ++ f.tenum.variants.map (·.name) ++ [f.tenum.name]

/-- `TerminalEnum::get_type` -/
def TermEnum.getType (t : TermEnum) (name : Str) : Option Str :=
  (t.variants.find? (·.name = name)).map (·.ty)

end VFile
end KikiVerif
