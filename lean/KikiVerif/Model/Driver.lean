/-
Model of the *emitted* parser: `LR.step` (written from the `parse` template of
`file_src`) over the model's table, and the value it returns, rendered the way
`derive(Debug)` renders the emitted types (`userView`).
-/
import KikiVerif.Model.Generate

namespace KikiVerif
namespace Driver
open LR

/-- the automaton the emitted `get_action` / `get_goto` implement (their column arguments are values of the
emitted `QuasiterminalKind` / `NonterminalKind` enums, so columns outside the table do not exist) -/
def autoOfTable (t : Table.Table) : Auto Nat Nat :=
  { start := t.start, items := fun _ _ => False, delta := fun _ _ => none,
    action := fun s la => match la with
      | none => t.action s t.nT
      | some c => if c < t.nT then t.action s c else .err,
    goto := fun s b => if b < t.nN then t.goto s b else none,
    first := fun _ _ _ => False }

inductive Out (P : Type) where
  | ok (t : Tree Nat P) (pulled : Nat)
  | errAt (index : Nat) (pulled : Nat)      -- `Err(Some(tokens[index]))`
  | errEof (pulled : Nat)                   -- `Err(None)`
  | panic
  | timeout

/-- `parse`: run to completion; `pulled` counts the items taken from the user's
iterator (the peeked lookahead included) -/
def run {P : Type} (g : Grammar Nat Nat) (A : Auto Nat Nat) (input : List (Tok Nat P)) (fuel : Nat) : Out P :=
  match runCfg g A fuel ⟨[A.start], [], input⟩ with
  | none => .timeout
  | some (r, c) =>
    let consumed := input.length - c.rest.length
    let pulled := min (consumed + 1) input.length
    match r with
    | .ok t => .ok t pulled
    | .panic => .panic
    | .err => if c.rest.isEmpty then .errEof pulled else .errAt consumed pulled
    | .cont _ => .panic

/-! ### `derive(Debug)` of the returned value -/

open Ast in
def usedFlags : Fieldset → List Bool
  | .empty => []
  | .named fs => fs.map NamedField.isUsed
  | .tuple fs => fs.map TupleField.isUsed

def variantName : VFile.Ctor → Str
  | .struct n => n
  | .variant _ v => v

def commaSep (l : List Str) : Str := Text.join ", ".toList l

mutual
/-- `{:?}` of the value built for a derivation tree whose token payloads are `usize` stamps;
`none` if the tree does not fit the declarations -/
def debugTree (rules : List VFile.Rule) : Tree Nat Nat → Option Str
  | .leaf tok => some (Text.natToStr tok.payload)
  | .node r cs =>
    match rules[r]? with
    | none => none
    | some rule =>
      match debugChildren rules cs with
      | none => none
      | some ds =>
        let name := variantName rule.ctor
        let used := (ds.zip (usedFlags rule.fieldset)).filterMap fun (d, u) => if u then some d else none
        if ds.length != rule.fieldset.len then none else
        match rule.fieldset with
        | .empty => some name
        | .named fs =>
          if used.isEmpty then some name else
          let names := fs.filterMap fun f => match f.name with | .id i => some i.name | .us _ => none
          some (name ++ " { ".toList ++ commaSep ((names.zip used).map fun (n, d) => n ++ ": ".toList ++ d) ++ " }".toList)
        | .tuple _ =>
          if used.isEmpty then some name else some (name ++ ['('] ++ commaSep used ++ [')'])
def debugChildren (rules : List VFile.Rule) : List (Tree Nat Nat) → Option (List Str)
  | [] => some []
  | c :: cs =>
    match debugTree rules c, debugChildren rules cs with
    | some d, some ds => some (d :: ds)
    | _, _ => none
end

end Driver
end KikiVerif
