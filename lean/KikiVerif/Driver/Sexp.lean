/-
Canonical S-expression printers, byte-compatible with `harness/src/main.rs`.
Part of the correspondence tie (trusted): what is not printed is not compared.
-/
import KikiVerif.Model.Generate

namespace KikiVerif
namespace Sexp

def hexDigit (n : Nat) : Char := if n < 10 then Char.ofNat (48 + n) else Char.ofNat (87 + n)

def hexOfBytes (b : ByteArray) : String := Id.run do
  let mut s := "x"
  for x in b.toList do
    s := s.push (hexDigit (x.toNat / 16)) |>.push (hexDigit (x.toNat % 16))
  return s

def hex (s : Str) : String := hexOfBytes (String.ofList s).toUTF8

def hexVal (c : Char) : Nat :=
  if '0' ≤ c ∧ c ≤ '9' then c.toNat - 48 else if 'a' ≤ c ∧ c ≤ 'f' then c.toNat - 87 else 0

/-- `x…` or bare hex → text; `none` if the bytes are not UTF-8 -/
def unhex (s : String) : Option Str :=
  let cs := (if s.startsWith "x" then s.drop 1 else s).toString.toList
  let rec go : List Char → List UInt8 → List UInt8
    | a :: b :: rest, acc => go rest (UInt8.ofNat (hexVal a * 16 + hexVal b) :: acc)
    | _, acc => acc.reverse
  (String.fromUTF8? ⟨(go cs []).toArray⟩).map (·.toList)

def list (head : String) (items : List String) : String :=
  "(" ++ head ++ (items.map (" " ++ ·)).foldl (· ++ ·) "" ++ ")"

def token : Token → String
  | .underscore p => s!"(Underscore {p})"
  | .ident n p => s!"(Ident {p} {hex n})"
  | .termIdent n p => s!"(TerminalIdent {p} {hex n})"
  | .attr src p => s!"(OuterAttribute {p} {hex src})"
  | .startKw p => s!"(StartKw {p})"
  | .structKw p => s!"(StructKw {p})"
  | .enumKw p => s!"(EnumKw {p})"
  | .terminalKw p => s!"(TerminalKw {p})"
  | .colon p => s!"(Colon {p})"
  | .dcolon p => s!"(DoubleColon {p})"
  | .comma p => s!"(Comma {p})"
  | .lparen p => s!"(LParen {p})"
  | .rparen p => s!"(RParen {p})"
  | .lcurly p => s!"(LCurly {p})"
  | .rcurly p => s!"(RCurly {p})"
  | .langle p => s!"(LAngle {p})"
  | .rangle p => s!"(RAngle {p})"

def tokens (ts : List Token) : String := list "tokens" (ts.map token)

def sym' : Sym' → String
  | .t n => s!"(T {hex n})"
  | .n n => s!"(N {hex n})"

def positions (ps : List Nat) : String := " ".intercalate (ps.map toString)

def kerr : KErr → String
  | .lex i (some c) => s!"(Lex {i} (some {c.toNat}))"
  | .lex i none => s!"(Lex {i} none)"
  | .parse a c b => s!"(Parse {a} {hex c} {b})"
  | .noStartSymbol => "(NoStartSymbol)"
  | .multipleStartSymbols ps => s!"(MultipleStartSymbols {positions ps})"
  | .noTerminalEnum => "(NoTerminalEnum)"
  | .multipleTerminalEnums ps => s!"(MultipleTerminalEnums {positions ps})"
  | .notUppercase p => s!"(SymbolOrTerminalEnumNameFirstLetterNotUppercase {p})"
  | .notLowercase p => s!"(FieldFirstLetterNotLowercase {p})"
  | .nameClash n p q => s!"(NameClash {hex n} {p} {q})"
  | .variantNameClash n p q => s!"(NonterminalEnumVariantNameClash {hex n} {p} {q})"
  | .variantSeqClash syms p q =>
    s!"(NonterminalEnumVariantSymbolSequenceClash {list "syms" (syms.map sym')} {p} {q})"
  | .undefinedNonterminal n p => s!"(UndefinedNonterminal {hex n} {p})"
  | .undefinedTerminal n p => s!"(UndefinedTerminal {hex n} {p})"

open Ast in
def ident (i : Ident) : String := s!"(id {hex i.name} {i.pos})"

open Ast in
def symId : SymId → String
  | .n i => s!"(N {hex i.name} {i.pos})"
  | .t i => s!"(T {hex i.name} {i.dpos})"

open Ast in
def attrs (as : List Attr) : String := list "attrs" (as.map fun a => s!"(attr {hex a.src} {a.pos})")

open Ast in
def fieldset : Fieldset → String
  | .empty => "(empty)"
  | .named fs => list "named" (fs.map fun f =>
      let n := match f.name with
        | .id i => ident i
        | .us p => s!"(us {p})"
      s!"(f {n} {symId f.sym})")
  | .tuple fs => list "tuple" (fs.map fun
      | .used s => s!"(used {symId s})"
      | .skipped s => s!"(skipped {symId s})")

open Ast in
mutual
def ty : Ty → String
  | .unit => "(unit)"
  | .path p => list "path" (p.map ident)
  | .complex c as => s!"(complex {list "path" (c.map ident)} {list "args" (tys as)})"
def tys : List Ty → List String
  | [] => []
  | t :: ts => ty t :: tys ts
end

open Ast in
def struct (s : Struct) : String := s!"(struct {attrs s.attrs} {ident s.name} {fieldset s.fieldset})"

open Ast in
def enum (e : Enum) : String :=
  s!"(enum {attrs e.attrs} {ident e.name} {list "variants" (e.variants.map fun v => s!"(variant {ident v.name} {fieldset v.fieldset})")})"

open Ast in
def ast (f : File) : String :=
  list "ast" (f.items.map fun
    | .start i => s!"(start {ident i})"
    | .struct s => struct s
    | .enum e => enum e
    | .terminal t =>
      s!"(terminal {attrs t.attrs} {ident t.name} {list "variants" (t.variants.map fun v => s!"(tv {hex v.name.name} {v.name.dpos} {ty v.ty})")})")

def vfile (f : VFile.File) : String :=
  s!"(file {hex f.start} (tenum {hex f.tenum.name} {attrs f.tenum.attrs} {list "variants" (f.tenum.variants.map fun v => s!"(v {hex v.name} {hex v.ty})")}) {list "nonterminals" (f.nonterminals.map fun
    | .struct s => struct s
    | .enum e => enum e)})"

def item (enc : Encode.Enc) (i : Machine.Item) : String :=
  let rule := if i.rule = enc.ctx.numRules then "aug" else toString i.rule
  let la := if i.la = enc.ctx.nT then "eof" else hex (enc.tsorted.getD i.la [])
  s!"(item {rule} {la} {i.dot})"

def symbol (enc : Encode.Enc) : LR.Sym Nat Nat → String
  | .t a => s!"(T {hex (enc.tsorted.getD a [])})"
  | .n b => s!"(N {hex (enc.nsorted.getD b [])})"

def machine (enc : Encode.Enc) (m : Machine.Machine) : String :=
  s!"(machine {m.start} {list "states" (m.states.map fun s => list "state" (s.map (item enc)))} {list "transitions" (m.transitions.map fun t => s!"(tr {t.frm} {t.to} {symbol enc t.sym})")})"

def action : LR.Action → String
  | .shift s => s!"(s {s})"
  | .reduce r => s!"(r {r})"
  | .accept => "acc"
  | .err => "err"

def table (f : VFile.File) (enc : Encode.Enc) (t : Table.Table) : String :=
  let acts := (Emit.actionRows enc t).flatten.map action
  let gts := (Emit.gotoRows enc t).flatten.map fun
    | some s => toString s
    | none => "none"
  s!"(table {t.start} {list "terminals" (f.tenum.variants.map fun v => hex v.name)} {list "nonterminals" (f.nonterminals.map fun n => hex n.name)} {list "actions" acts} {list "gotos" gts})"

def stop (st : Generate.Stages) : List String :=
  match st.stop with
  | .done => []
  | .err e => [kerr e]
  | .conflict s a b =>
    match st.enc, st.vfile, st.machine with
    | some enc, some vf, some m => [s!"(TableConflict {s} {item enc a} {item enc b} {vfile vf} {machine enc m})"]
    | _, _, _ => ["(TableConflict ?)"]
  | .panic site => [s!"(panic {hex site.toList})"]
  | .timeout site => [s!"(timeout {hex site.toList})"]

/-- the answer to a `stages` request -/
def stages (st : Generate.Stages) : String :=
  let parts : List String :=
    (st.tokens.map tokens).toList ++
    (st.unexpected.map fun i => s!"(unexpected {match i with | some k => toString k | none => "none"})").toList ++
    (st.ast.map ast).toList ++
    (st.vfile.map vfile).toList ++
    (match st.enc, st.machine with | some e, some m => [machine e m] | _, _ => []) ++
    (match st.vfile, st.enc, st.table with | some f, some e, some t => [table f e t] | _, _, _ => []) ++
    (st.text.map fun t => s!"(text {hex t})").toList ++
    stop st
  list "stages" parts

/-- the answer to a `generate` request (public API view) -/
def generate (st : Generate.Stages) : String :=
  match st.stop, st.text with
  | .done, some t => s!"(ok {hex t})"
  | .panic site, _ => s!"(panic {hex site.toList})"
  | .timeout site, _ => s!"(timeout {hex site.toList})"
  | _, _ => s!"(err {" ".intercalate (stop st)})"

end Sexp
end KikiVerif
