/-
C11 — a table-conflict error pinpoints a real conflict in the real automaton.
(first layer: the `set_action` lemma; the scan lemmas are added in Proofs/Table)
-/
import KikiVerif.Model.Table

namespace KikiVerif.C11
open KikiVerif.Table KikiVerif.Machine KikiVerif.LR

/-- `set_action` reports a conflict only for the state it was asked about, pairs the item that
filled the cell with the new item, and the two demanded actions differ -/
theorem C11_setAction_conflict (tb : TB) (state col : Nat) (it : Item) (a : Action)
    (s : Nat) (e n : Item) (h : setAction tb state col it a = .conflict s e n) :
    s = state ∧ n = it ∧ ∃ ea, tb.actions.lookup (state, col) = some (e, ea) ∧ ea ≠ a := by
  unfold setAction at h
  split at h
  · rename_i existing ea hl
    split at h
    · cases h
    · rename_i hne
      cases h
      exact ⟨rfl, rfl, ea, hl, hne⟩
  · cases h

end KikiVerif.C11

#print axioms KikiVerif.C11.C11_setAction_conflict
