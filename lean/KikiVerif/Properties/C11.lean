/-
C11 — a table-conflict error pinpoints a real conflict in the real automaton.
`C11_payload`: for every grammar and every automaton handed to `machine_to_table`, a conflict report names
a state of that automaton, two items of that state, and the two items demand different parser actions on the
same lookahead column (terminal or end of input).
-/
import KikiVerif.Model.Table
import KikiVerif.Proofs.Table
import KikiVerif.Proofs.Generator
import KikiVerif.Proofs.Encode
import KikiVerif.Proofs.FirstSound
import KikiVerif.Proofs.LalrConflict

namespace KikiVerif.C11
open KikiVerif.Table KikiVerif.Machine KikiVerif.LR

/-- `set_action` reports a conflict only for the state it was asked about, pairs the item that
filled the cell with the new item, and the two demanded actions differ -/
theorem C11_setAction_conflict (tb : TB) (state col : Nat) (it : Item) (a : Action)
    (s : Nat) (e n : Item) (h : setAction tb state col it a = .conflict s e n) :
    s = state ∧ n = it ∧ ∃ ea, tb.actions.lookup (state, col) = some (e, ea) ∧ ea ≠ a := by
  unfold setAction at h
  split at h
  · rename_i existing ea hl
    split at h
    · cases h
    · rename_i hne
      cases h
      exact ⟨rfl, rfl, ea, hl, hne⟩
  · cases h

/-- **C11 (first half)**: the reported state index is a state of the automaton, both reported items belong to
that state, and they demand (`Table.demand`: shift on the terminal after the dot / reduce on the item's
lookahead / accept on end of input) different actions on the same lookahead column -/
theorem C11_payload (c : Ctx) (m : Machine) (s : Nat) (e n : Item)
    (h : machineToTable c m = .conflict s e n) :
    (∃ st, m.states[s]? = some st ∧ e ∈ st ∧ n ∈ st) ∧
    ∃ col ae an, demand c m s e = some (col, ae) ∧ demand c m s n = some (col, an) ∧ ae ≠ an :=
  conflict_genuine c m s e n h

/-- **C11, the attached automaton, every validated file**: when `machine_to_table` reports a conflict on the
machine `validated_ast_to_machine` built, the reported state, items and actions are a genuine conflict
(`C11_payload`), *and* that machine is the LALR(1) automaton of the grammar in the sense of `C17`: its item sets,
lookaheads included, are exactly the least fixed point of the LALR(1) propagation rules over its transition
graph (w.r.t. a closed and sound FIRST map), no two states share a core, transitions are functional -/
theorem C11_attached_automaton (vf : VFile.File) (enc : Encode.Enc) (m : Machine) (fuel : Nat)
    (he : Encode.encode vf = some enc) (hm : machineOf enc.ctx fuel = some (some m))
    (s : Nat) (e n : Item) (hc : machineToTable enc.ctx m = .conflict s e n) :
    Genuine enc.ctx m s e n ∧
    ∃ fm, firstSets enc.ctx fuel = some (some fm) ∧ Valid.firstClosedB enc.ctx.g (toTbl fm) = true ∧
      FmSound enc.ctx.g fm ∧
      (∀ s y, (s < m.states.length ∧ y ∈ m.states.getD s []) ↔ Deriv enc.ctx fm m.start m.transitions s y) ∧
      (∀ s1 s2, s1 < m.states.length → s2 < m.states.length →
        SameCores (m.states.getD s1 []) (m.states.getD s2 []) → s1 = s2) := by
  obtain ⟨fm, hfm, mok⟩ := machineOf_ok (Encode.encode_ok he).terms hm
  exact ⟨conflict_genuine _ _ s e n hc, fm, hfm, (firstSets_closed hfm).1, firstSets_sound hfm, items_exact mok,
    mok.distinct⟩

/-- **C11 in the textbook's terms, every validated file**: the two items of a conflict report are an LALR(1)
conflict *of the grammar* (no reference to how the automaton was built): each lies, lookahead included, in a state
of the canonical LR(1) collection whose cores are those of the reported state (so both canonical states are merged
into it), and the two items want different parser actions (`Machine.want`: shift on the terminal right of the dot /
reduce by the item's rule on the item's lookahead / accept on end of input) on one lookahead column -/
theorem C11_conflict_is_lalr1 (vf : VFile.File) (enc : Encode.Enc) (m : Machine) (fuel : Nat)
    (he : Encode.encode vf = some enc) (hm : machineOf enc.ctx fuel = some (some m))
    (s : Nat) (e n : Item) (hc : machineToTable enc.ctx m = .conflict s e n) :
    ∃ fm, firstSets enc.ctx fuel = some (some fm) ∧
      ∃ (I1 I2 : Item → Prop) (col : Nat) (w1 w2 : Want),
        CanonState enc.ctx fm I1 ∧ CanonState enc.ctx fm I2 ∧ SameCoresPS I1 (m.states.getD s []) ∧
        SameCoresPS I2 (m.states.getD s []) ∧ I1 e ∧ I2 n ∧
        want enc.ctx e = some (col, w1) ∧ want enc.ctx n = some (col, w2) ∧ w1 ≠ w2 := by
  have ok := Encode.encode_ok he
  obtain ⟨fm, hfm, mok⟩ := machineOf_ok ok.terms hm
  exact ⟨fm, hfm, genuine_lalr ok (firstSets_closed hfm).2.1 mok (conflict_genuine _ _ s e n hc)⟩

end KikiVerif.C11

#print axioms KikiVerif.C11.C11_setAction_conflict
#print axioms KikiVerif.C11.C11_payload
#print axioms KikiVerif.C11.C11_attached_automaton
#print axioms KikiVerif.C11.C11_conflict_is_lalr1
