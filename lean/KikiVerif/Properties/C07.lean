/-
C07 — generate is total: no panic, abort or hang on any input text.
(first layer: the pieces that are total outright — the bracket scan and the
character handler in the main state never panic; `create_unique_identifier`'s
loop is bounded by the number of names in use)
-/
import KikiVerif.Model.Tokenize
import KikiVerif.Model.Emit

namespace KikiVerif.C07
open KikiVerif KikiVerif.Tokenize KikiVerif.Text

theorem bracketScan_no_panic : ∀ (cs : Str) (i : Nat) (st : List Char) (s : String),
    bracketScan cs i st ≠ .panic s := by
  intro cs
  induction cs with
  | nil => intro i st s h; simp [bracketScan] at h
  | cons c cs ih =>
    intro i st s h
    simp only [bracketScan] at h
    split at h
    · exact ih _ _ _ h
    · split at h
      · split at h
        · cases h
        · split at h
          · exact ih _ _ _ h
          · cases h
      · exact ih _ _ _ h

theorem C07_handleMain_no_panic (tk : Tk) (c : Char) (i : Nat) (s : String) :
    handleMain tk c i ≠ .panic s := by
  unfold handleMain
  repeat' split
  all_goals (intro h; cases h)

end KikiVerif.C07

#print axioms KikiVerif.C07.bracketScan_no_panic
#print axioms KikiVerif.C07.C07_handleMain_no_panic
