/-
C07 — generate is total: no panic, abort or hang on any input text.
Stage by stage, for every input text:
  * `C07_tokenize_total`  — the tokenizer returns tokens or a `Lex` error: none of its three source slices
    can be off a character boundary or out of range (from `tokenize = Spec.scan`);
  * `C07_parse_no_panic`  — the table-driven front-end parser never panics (no `unwrap` on an empty stack, no
    failed `try_from`) on any token list (from the kernel-checked validity of the `parser.rs` tables);
  * `C07_cst_to_ast_total` — the CST→AST conversion succeeds on every CST the parser returns.
The stages after that (validation → emission) are covered by the correspondence run only (outcome class of
every stage under `catch_unwind` with a watchdog, compared with the model, whose panics are explicit).
-/
import KikiVerif.Model.Tokenize
import KikiVerif.Model.Emit
import KikiVerif.Properties.C08
import KikiVerif.Properties.C09
import KikiVerif.Properties.C10
import KikiVerif.Proofs.NoPanic
import KikiVerif.Proofs.TermBuild
import KikiVerif.Proofs.Pipeline
import KikiVerif.Proofs.Encode
import KikiVerif.Proofs.Total

namespace KikiVerif.C07
open KikiVerif KikiVerif.Tokenize KikiVerif.Text

theorem bracketScan_no_panic : ∀ (cs : Str) (i : Nat) (st : List Char) (s : String),
    bracketScan cs i st ≠ .panic s := by
  intro cs
  induction cs with
  | nil => intro i st s h; simp [bracketScan] at h
  | cons c cs ih =>
    intro i st s h
    simp only [bracketScan] at h
    split at h
    · exact ih _ _ _ h
    · split at h
      · split at h
        · cases h
        · split at h
          · exact ih _ _ _ h
          · cases h
      · exact ih _ _ _ h

theorem C07_handleMain_no_panic (tk : Tk) (c : Char) (i : Nat) (s : String) :
    handleMain tk c i ≠ .panic s := by
  unfold handleMain
  repeat' split
  all_goals (intro h; cases h)

theorem C07_tokenize_total (src : Str) :
    (∃ ts, Tokenize.tokenize src = .ok ts) ∨ (∃ j c, Tokenize.tokenize src = .err (.lex j c)) :=
  C08.C08_tokenize_total src

theorem C07_parse_no_panic (toks : List Token) (fuel : Nat) (out : FrontParse.ParseOut)
    (h : FrontParse.parse toks fuel = some out) : (match out with | .panic => False | _ => True) :=
  (C09.C09_parse_correct toks fuel out h).1

theorem C07_cst_to_ast_total (toks : List Token) (fuel : Nat) (t : FrontParse.CTree)
    (h : FrontParse.parse toks fuel = some (.ok t)) : ∃ ast, FrontParse.cstToAst t = some ast := by
  obtain ⟨ast, h1, _⟩ := C09.C09_flatten toks fuel t h
  exact ⟨ast, h1⟩

/-- validation has no panicking path -/
theorem C07_validate_no_panic (f : Ast.File) (s : String) : Validate.validateAst f ≠ .panic s :=
  C10.C10_no_panic f s

/-- **the generator stages never panic, every validated file**: once the grammar is coded, neither
`validated_ast_to_machine` (FIRST-map `unwrap`s, `index_map[i]`) nor `machine_to_table` (`rules[i]`,
`get_symbol_ident`, `get_shift_dest(..).unwrap()`, the "Impossible: goto conflict", table index range checks)
can panic: the first returns a machine or runs out of the model's fuel, the second returns a table or a conflict -/
theorem C07_generator_no_panic (vf : VFile.File) (enc : Encode.Enc) (he : Encode.encode vf = some enc) (fuel : Nat) :
    Machine.machineOf enc.ctx fuel ≠ some none ∧
    ∀ m, Machine.machineOf enc.ctx fuel = some (some m) → ∀ site, Table.machineToTable enc.ctx m ≠ .panic site := by
  have ok := Encode.encode_ok he
  refine ⟨NoPanic.machineOf_no_panic ok fuel, ?_⟩
  intro m hm site
  obtain ⟨fm, _, mok⟩ := Machine.machineOf_ok ok.terms hm
  exact NoPanic.machineToTable_no_panic ok mok site

/-- the conversion of an unexpected token into `KikiErr::Parse` cannot panic -/
theorem C07_parse_error_no_panic (src : Str) (toks : List Token) (htok : Tokenize.tokenize src = .ok toks) (fuel : Nat)
    (idx : Option Nat) (h : FrontParse.parse toks fuel = some (.unexpected idx)) :
    ∃ e, FrontParse.unexpectedToErr src (idx.bind (toks[·]?)) = .ok e := by
  obtain ⟨h1, h2, h3⟩ := C09.C09_error_span src toks htok fuel idx h
  cases hb : idx.bind (toks[·]?) with
  | none => exact ⟨_, h3⟩
  | some t => exact ⟨_, h2 t hb⟩

/-- **the generator stages are total, every validated file**: once the grammar is coded, `validated_ast_to_machine`
*terminates* — the FIRST fixpoint within `nN·(nT+1)` changing passes, every closure within the number of
well-formed items times the implication bound, the worklist within a potential bounded by `2^C·(U+1)` (at most
`2^C` states since no two share a core, at most `U` items per state) — and returns a machine; `machine_to_table`
(structural recursion) then returns a table or a genuine conflict.  `genFuel` is the explicit bound: with any
fuel from there on the model's loops never run out, i.e. the unbounded Rust loops stop. -/
theorem C07_generator_total (vf : VFile.File) (enc : Encode.Enc) (he : Encode.encode vf = some enc) (fuel : Nat)
    (hf : Machine.genFuel enc.ctx ≤ fuel) :
    ∃ m, Machine.machineOf enc.ctx fuel = some (some m) ∧
      ((∃ t, Table.machineToTable enc.ctx m = .ok t) ∨
       (∃ s e n, Table.machineToTable enc.ctx m = .conflict s e n ∧ Table.Genuine enc.ctx m s e n)) := by
  have ok := Encode.encode_ok he
  obtain ⟨m, hm⟩ := Machine.machineOf_terminates ok fuel hf
  refine ⟨m, hm, ?_⟩
  obtain ⟨fm, _, mok⟩ := Machine.machineOf_ok ok.terms hm
  cases h : Table.machineToTable enc.ctx m with
  | ok t => exact Or.inl ⟨t, rfl⟩
  | conflict s e n => exact Or.inr ⟨s, e, n, rfl, Table.conflict_genuine _ _ s e n h⟩
  | panic site => exact absurd h (NoPanic.machineToTable_no_panic ok mok site)

/-- **C07, no panic, end to end**: for every source text (any UTF-8 string: the model works on `List Char` with
byte offsets) and every fuel, the pipeline `generate` is made of never stops at a panic site.  `Generate.stages`
mirrors `lib.rs::generate` stage by stage and has an explicit `panic` outcome at every `unwrap`, `expect`,
slice and index of the Rust code; the correspondence run checks on every generated input that model and
implementation agree on the outcome class and on every intermediate value. -/
theorem C07_generate_no_panic (src sha : Str) (fuel : Nat) (site : String) :
    (Generate.stages src sha fuel).stop ≠ .panic site :=
  Pipeline.stages_no_panic src sha fuel site

/-- after validation the symbol coding and the text emitter cannot fail (for files whose terminal names contain
no `$` — every file that comes from the tokenizer) -/
theorem C07_emission_total {f : Ast.File} {vf : VFile.File} (hv : Validate.validateAst f = .ok vf)
    (hdf : EmitTotal.DollarFree f) :
    (∃ enc, Encode.encode vf = some enc) ∧ ∀ enc t sha, ∃ m, Emit.moduleOf vf enc t sha = some m :=
  ⟨EmitTotal.encode_total hv hdf, fun enc t sha => EmitTotal.moduleOf_total hv hdf enc t sha⟩

/-- the front-end parse loop stops on every token sequence (no fuel left to chance) -/
theorem C07_front_parse_halts (toks : List Token) (k : Nat) :
    ∃ out, FrontParse.parse toks (HaltFront.parseBound toks.length + k) = some out :=
  HaltFront.front_parse_halts toks k

/-- **`generate` is total, every source text**: there is an amount of fuel (front-end parse bound plus
`genFuel` of the coded grammar) from which on the pipeline — tokenizer, front-end parser, `cst_to_ast`,
validation, FIRST fixpoint, closures, LALR worklist, table construction, emission — ends in exactly one of:
the emitted text, a `KikiErr`, or a table conflict; it neither panics nor loops -/
theorem C07_generate_total (src sha : Str) :
    ∃ F, ∀ fuel, F ≤ fuel →
      match (Generate.stages src sha fuel).stop with
      | .done => True
      | .err _ => True
      | .conflict _ _ _ => True
      | .panic _ => False
      | .timeout _ => False :=
  HaltFront.stages_total src sha

end KikiVerif.C07

#print axioms KikiVerif.C07.C07_generate_total
#print axioms KikiVerif.C07.C07_front_parse_halts
#print axioms KikiVerif.C07.bracketScan_no_panic
#print axioms KikiVerif.C07.C07_handleMain_no_panic
#print axioms KikiVerif.C07.C07_tokenize_total
#print axioms KikiVerif.C07.C07_parse_no_panic
#print axioms KikiVerif.C07.C07_cst_to_ast_total
#print axioms KikiVerif.C07.C07_validate_no_panic
#print axioms KikiVerif.C07.C07_generator_no_panic
#print axioms KikiVerif.C07.C07_parse_error_no_panic
#print axioms KikiVerif.C07.C07_generator_total
#print axioms KikiVerif.C07.C07_generate_no_panic
#print axioms KikiVerif.C07.C07_emission_total
