/-
C16 — whitespace, line endings and comments never influence the result.
The tokenizer equals the scanner specification on every text (`C16_tokenize_eq_spec`), and the scanner
skips a `White_Space` character and a whole `//` comment (terminated by `\n`, or by the end of the input)
without producing a token, resuming right after them.
-/
import KikiVerif.Proofs.Shift
import KikiVerif.Spec.Lex
import KikiVerif.Proofs.Tokenize

namespace KikiVerif.C16
open KikiVerif KikiVerif.Spec KikiVerif.Text

/-- a `White_Space` character between tokens produces nothing -/
theorem C16_skip_whitespace (c : Char) (rest : Str) (i : Nat) (h : isWhitespace c = true) :
    scanFrom (c :: rest) i = scanFrom rest (i + clen c) := by
  rw [scanFrom_skip (next_whitespace c rest i h)]
  simp [blen]

theorem C16_tokenize_eq_spec (src : Str) : Tokenize.tokenize src = scan src := Tokenize.tokenize_eq_scan src

theorem commentLen_line (body rest : Str) (h : ∀ c ∈ body, c ≠ '\n') :
    commentLen (body ++ '\n' :: rest) = body.length + 1 := by
  induction body with
  | nil => simp [commentLen]
  | cons c cs ih =>
    have hc : c ≠ '\n' := h c (List.mem_cons_self ..)
    simp only [List.cons_append, commentLen, hc, if_false, List.length_cons]
    rw [ih (fun d hd => h d (List.mem_cons_of_mem _ hd))]
    omega

theorem commentLen_eof (body : Str) (h : ∀ c ∈ body, c ≠ '\n') : commentLen body = body.length := by
  induction body with
  | nil => rfl
  | cons c cs ih =>
    have hc : c ≠ '\n' := h c (List.mem_cons_self ..)
    simp only [commentLen, hc, if_false, List.length_cons]
    rw [ih (fun d hd => h d (List.mem_cons_of_mem _ hd))]
    omega

theorem next_comment (r : Str) (i : Nat) : next ('/' :: '/' :: r) i = .skip (1 + commentLen r) := by
  simp [next, show isWhitespace '/' = false from by decide]

/-- a `//` comment with arbitrary content up to the next `\n` produces nothing; scanning resumes after the
line break -/
theorem C16_skip_comment (body rest : Str) (i : Nat) (h : ∀ c ∈ body, c ≠ '\n') :
    scanFrom ('/' :: '/' :: (body ++ '\n' :: rest)) i = scanFrom rest (i + (2 + blen body + 1)) := by
  rw [scanFrom_skip (next_comment _ i), commentLen_line body rest h]
  have e1 : ('/' :: '/' :: (body ++ '\n' :: rest)).drop (1 + (body.length + 1) + 1) = rest := by
    have : 1 + (body.length + 1) + 1 = (body.length + 1) + 2 := by omega
    rw [this]
    simp only [List.drop_succ_cons]
    have : body ++ '\n' :: rest = (body ++ ['\n']) ++ rest := by simp
    rw [this]
    have : body.length + 1 = (body ++ ['\n']).length := by simp
    rw [this, List.drop_left]
  have e2 : ('/' :: '/' :: (body ++ '\n' :: rest)).take (1 + (body.length + 1) + 1) = '/' :: '/' :: (body ++ ['\n']) := by
    have : 1 + (body.length + 1) + 1 = (body.length + 1) + 2 := by omega
    rw [this]
    simp only [List.take_succ_cons]
    have : body ++ '\n' :: rest = (body ++ ['\n']) ++ rest := by simp
    rw [this]
    have : body.length + 1 = (body ++ ['\n']).length := by simp
    rw [this, List.take_left]
  rw [e1, e2]
  congr 1
  simp [blen, clen]
  have : ('/' : Char).utf8Size = 1 := by decide
  have : ('\n' : Char).utf8Size = 1 := by decide
  omega

/-- a final comment without a line break produces nothing either -/
theorem C16_trailing_comment (body : Str) (i : Nat) (h : ∀ c ∈ body, c ≠ '\n') :
    scanFrom ('/' :: '/' :: body) i = .ok [] := by
  rw [scanFrom_skip (next_comment _ i), commentLen_eof body h]
  have e1 : ('/' :: '/' :: body).drop (1 + body.length + 1) = [] := by
    have : 1 + body.length + 1 = body.length + 2 := by omega
    rw [this]; simp
  rw [e1]
  exact scanFrom_done rfl

/-- **the scanner is translation invariant**: the same characters scanned at another byte offset give the same
tokens with every position moved by the difference (same lexical error, moved likewise) — so the amount of
layout before a point influences what follows only through positions -/
theorem C16_translation_invariant (cs : Str) (i d : Nat) :
    scanFrom cs (i + d) = Spec.shiftRes d (scanFrom cs i) :=
  Spec.scanFrom_shift cs.length cs i d (Nat.le_refl _)

/-- leading whitespace — any of the 25 `White_Space` characters, any amount, at any offset — does not change the
kinds and payloads of the tokens that follow -/
theorem C16_leading_whitespace (ws cs : Str) (i j : Nat) (h : ∀ c ∈ ws, isWhitespace c = true) :
    (match scanFrom (ws ++ cs) i with | .ok ts => some (ts.map Spec.erase) | _ => none) =
    (match scanFrom cs j with | .ok ts => some (ts.map Spec.erase) | _ => none) :=
  Spec.leading_whitespace_irrelevant ws cs i j h

end KikiVerif.C16

#print axioms KikiVerif.C16.C16_skip_whitespace
#print axioms KikiVerif.C16.C16_tokenize_eq_spec
#print axioms KikiVerif.C16.C16_skip_comment
#print axioms KikiVerif.C16.C16_trailing_comment
#print axioms KikiVerif.C16.C16_translation_invariant
#print axioms KikiVerif.C16.C16_leading_whitespace
