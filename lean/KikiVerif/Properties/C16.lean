/-
C16 — whitespace, line endings and comments never influence the result.
(first layer: the specification scanner skips a whitespace character without
producing a token)
-/
import KikiVerif.Spec.Lex

namespace KikiVerif.C16
open KikiVerif KikiVerif.Spec KikiVerif.Text

/-- a `White_Space` character between tokens produces nothing -/
theorem C16_skip_whitespace (c : Char) (rest : Str) (i : Nat) (h : isWhitespace c = true) :
    scanFrom (c :: rest) i = scanFrom rest (i + clen c) := by
  rw [scanFrom_skip (next_whitespace c rest i h)]
  simp [blen]

end KikiVerif.C16

#print axioms KikiVerif.C16.C16_skip_whitespace
