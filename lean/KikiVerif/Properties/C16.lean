/-
C16 — whitespace, line endings and comments never influence the result.
The tokenizer equals the scanner specification on every text (`C16_tokenize_eq_spec`), and the scanner
skips a `White_Space` character and a whole `//` comment (terminated by `\n`, or by the end of the input)
without producing a token, resuming right after them.
-/
import KikiVerif.Proofs.Shift
import KikiVerif.Spec.Lex
import KikiVerif.Proofs.Tokenize
import KikiVerif.Proofs.Layout
import KikiVerif.Proofs.Separator

namespace KikiVerif.C16
open KikiVerif KikiVerif.Spec KikiVerif.Text

/-- a `White_Space` character between tokens produces nothing -/
theorem C16_skip_whitespace (c : Char) (rest : Str) (i : Nat) (h : isWhitespace c = true) :
    scanFrom (c :: rest) i = scanFrom rest (i + clen c) := by
  rw [scanFrom_skip (next_whitespace c rest i h)]
  simp [blen]

theorem C16_tokenize_eq_spec (src : Str) : Tokenize.tokenize src = scan src := Tokenize.tokenize_eq_scan src

theorem commentLen_line (body rest : Str) (h : ∀ c ∈ body, c ≠ '\n') :
    commentLen (body ++ '\n' :: rest) = body.length + 1 := by
  induction body with
  | nil => simp [commentLen]
  | cons c cs ih =>
    have hc : c ≠ '\n' := h c (List.mem_cons_self ..)
    simp only [List.cons_append, commentLen, hc, if_false, List.length_cons]
    rw [ih (fun d hd => h d (List.mem_cons_of_mem _ hd))]
    omega

theorem commentLen_eof (body : Str) (h : ∀ c ∈ body, c ≠ '\n') : commentLen body = body.length := by
  induction body with
  | nil => rfl
  | cons c cs ih =>
    have hc : c ≠ '\n' := h c (List.mem_cons_self ..)
    simp only [commentLen, hc, if_false, List.length_cons]
    rw [ih (fun d hd => h d (List.mem_cons_of_mem _ hd))]
    omega

theorem next_comment (r : Str) (i : Nat) : next ('/' :: '/' :: r) i = .skip (1 + commentLen r) := by
  simp [next, show isWhitespace '/' = false from by decide]

/-- a `//` comment with arbitrary content up to the next `\n` produces nothing; scanning resumes after the
line break -/
theorem C16_skip_comment (body rest : Str) (i : Nat) (h : ∀ c ∈ body, c ≠ '\n') :
    scanFrom ('/' :: '/' :: (body ++ '\n' :: rest)) i = scanFrom rest (i + (2 + blen body + 1)) := by
  rw [scanFrom_skip (next_comment _ i), commentLen_line body rest h]
  have e1 : ('/' :: '/' :: (body ++ '\n' :: rest)).drop (1 + (body.length + 1) + 1) = rest := by
    have : 1 + (body.length + 1) + 1 = (body.length + 1) + 2 := by omega
    rw [this]
    simp only [List.drop_succ_cons]
    have : body ++ '\n' :: rest = (body ++ ['\n']) ++ rest := by simp
    rw [this]
    have : body.length + 1 = (body ++ ['\n']).length := by simp
    rw [this, List.drop_left]
  have e2 : ('/' :: '/' :: (body ++ '\n' :: rest)).take (1 + (body.length + 1) + 1) = '/' :: '/' :: (body ++ ['\n']) := by
    have : 1 + (body.length + 1) + 1 = (body.length + 1) + 2 := by omega
    rw [this]
    simp only [List.take_succ_cons]
    have : body ++ '\n' :: rest = (body ++ ['\n']) ++ rest := by simp
    rw [this]
    have : body.length + 1 = (body ++ ['\n']).length := by simp
    rw [this, List.take_left]
  rw [e1, e2]
  congr 1
  simp [blen, clen]
  have : ('/' : Char).utf8Size = 1 := by decide
  have : ('\n' : Char).utf8Size = 1 := by decide
  omega

/-- a final comment without a line break produces nothing either -/
theorem C16_trailing_comment (body : Str) (i : Nat) (h : ∀ c ∈ body, c ≠ '\n') :
    scanFrom ('/' :: '/' :: body) i = .ok [] := by
  rw [scanFrom_skip (next_comment _ i), commentLen_eof body h]
  have e1 : ('/' :: '/' :: body).drop (1 + body.length + 1) = [] := by
    have : 1 + body.length + 1 = body.length + 2 := by omega
    rw [this]; simp
  rw [e1]
  exact scanFrom_done rfl

/-- **the scanner is translation invariant**: the same characters scanned at another byte offset give the same
tokens with every position moved by the difference (same lexical error, moved likewise) — so the amount of
layout before a point influences what follows only through positions -/
theorem C16_translation_invariant (cs : Str) (i d : Nat) :
    scanFrom cs (i + d) = Spec.shiftRes d (scanFrom cs i) :=
  Spec.scanFrom_shift cs.length cs i d (Nat.le_refl _)

/-- leading whitespace — any of the 25 `White_Space` characters, any amount, at any offset — does not change the
kinds and payloads of the tokens that follow -/
theorem C16_leading_whitespace (ws cs : Str) (i j : Nat) (h : ∀ c ∈ ws, isWhitespace c = true) :
    (match scanFrom (ws ++ cs) i with | .ok ts => some (ts.map Spec.erase) | _ => none) =
    (match scanFrom cs j with | .ok ts => some (ts.map Spec.erase) | _ => none) :=
  Spec.leading_whitespace_irrelevant ws cs i j h

/-- **C16, end to end: the layout never influences the result.**  If two source texts tokenize to the same token
sequence up to positions (same kinds, names and attribute texts — what inserting or removing whitespace, line
breaks and comments between tokens preserves, by the scanner theorems above), then the two runs of `generate`
(any digests, any fuel) have the same coded grammar, automaton and table; the same emitted module except for the
digest in the header — the emitted texts are `header sha₁ ++ b` and `header sha₂ ++ b` with one and the same
`b`; and they stop the same way: both done, the same table conflict, or *the same error with its positions
shifted accordingly* — a static error of the same variant with the same names whose every position is the
stored position of the same-index token of either text (`SameErr.static`), a parse error at the same token
index with that token's own span in either text (`parseAt`), or both at end of input (`parseEof`).
Proof (`Proofs/Relabel`, `Proofs/Layout`): the front-end parser reads token kinds only, `cst_to_ast` and
`validate_ast` only copy positions (naturality under every relabelling `ρ : Nat → Nat`), and nothing after
validation reads a position; both token lists are relabellings of the list that carries the token indices. -/
theorem C16_layout_insensitive (src1 src2 sha1 sha2 : Str) (fuel : Nat) (t1 t2 : List Token)
    (h1 : Tokenize.tokenize src1 = .ok t1) (h2 : Tokenize.tokenize src2 = .ok t2)
    (he : t1.map Spec.erase = t2.map Spec.erase) :
    Layout.SameResult src1 src2 sha1 sha2 t1 t2 (Generate.stages src1 sha1 fuel) (Generate.stages src2 sha2 fuel) :=
  Layout.relayout src1 src2 sha1 sha2 fuel t1 t2 h1 h2 he

/-- the hypothesis is met, e.g., by any amount of leading `White_Space`: the result is the same up to positions -/
theorem C16_leading_whitespace_end_to_end (ws cs sha1 sha2 : Str) (fuel : Nat) (t1 : List Token)
    (hws : ∀ c ∈ ws, isWhitespace c = true) (h1 : Tokenize.tokenize cs = .ok t1) :
    ∃ t2, Tokenize.tokenize (ws ++ cs) = .ok t2 ∧
      Layout.SameResult (ws ++ cs) cs sha2 sha1 t2 t1 (Generate.stages (ws ++ cs) sha2 fuel) (Generate.stages cs sha1 fuel) := by
  have hl := Spec.leading_whitespace_irrelevant ws cs 0 0 hws
  rw [Tokenize.tokenize_eq_scan] at h1
  have h1' : scanFrom cs 0 = .ok t1 := h1
  rw [h1'] at hl
  cases h2 : scanFrom (ws ++ cs) 0 with
  | ok t2 =>
    rw [h2] at hl
    simp only [Option.some.injEq] at hl
    have ht2 : Tokenize.tokenize (ws ++ cs) = .ok t2 := by rw [Tokenize.tokenize_eq_scan]; exact h2
    have ht1 : Tokenize.tokenize cs = .ok t1 := by rw [Tokenize.tokenize_eq_scan]; exact h1'
    exact ⟨t2, ht2, Layout.relayout _ _ _ _ fuel t2 t1 ht2 ht1 hl⟩
  | err e => rw [h2] at hl; cases hl
  | panic s => rw [h2] at hl; cases hl

/-- **C16, scanner side, as one statement**: `Spec.Reach src 0 ts post i'` says that the scanner, after emitting
`ts`, stands at the suffix `post` of `src` — `post` starts at a token boundary (the start of a token, of a
whitespace character or of a comment).  Putting any layout `L` (`Spec.Layout`: `White_Space` characters and
complete `//…\n` comments, in any mixture) in at that point leaves the tokens before it untouched and moves
everything behind it by the length of `L`: the same tokens up to positions, or the same lexical error shifted.
Read from right to left it is the statement for *removing* layout that stands at a boundary. -/
theorem C16_layout_at_boundary {src : Str} {ts : List Token} {post : Str} {i' : Nat}
    (h : Spec.Reach src 0 ts post i') {L : Str} (hL : Spec.Layout L) :
    ∃ pre, src = pre ++ post ∧
      (∀ t1, Tokenize.tokenize src = .ok t1 → ∃ tp, t1 = ts ++ tp ∧
        Tokenize.tokenize (pre ++ L ++ post) = .ok (ts ++ tp.map (Spec.shiftTok (blen L)))) ∧
      (∀ j c, Tokenize.tokenize src = .err (.lex j c) →
        Tokenize.tokenize (pre ++ L ++ post) = .err (.lex (j + blen L) c)) := by
  obtain ⟨pre, e, h1, h2⟩ := Spec.insert_layout_result h hL
  refine ⟨pre, e, ?_, ?_⟩
  · intro t1 ht
    rw [Tokenize.tokenize_eq_scan] at ht ⊢
    exact h1 t1 ht
  · intro j c ht
    rw [Tokenize.tokenize_eq_scan] at ht ⊢
    exact h2 j c ht

/-- **C16, whole pipeline**: layout put in at any token boundary of an accepted-by-the-tokenizer text changes
nothing in `generate`'s result except the digest in the header and positions (`Layout.SameResult`: same coded
grammar, automaton, table, module up to the digest, same conflict, or the same error with its positions shifted
accordingly) -/
theorem C16_insert_layout_end_to_end {src : Str} {ts : List Token} {post : Str} {i' : Nat}
    (h : Spec.Reach src 0 ts post i') {L : Str} (hL : Spec.Layout L) (sha1 sha2 : Str) (fuel : Nat)
    (t1 : List Token) (ht : Tokenize.tokenize src = .ok t1) :
    ∃ pre t2, src = pre ++ post ∧ Tokenize.tokenize (pre ++ L ++ post) = .ok t2 ∧
      Layout.SameResult src (pre ++ L ++ post) sha1 sha2 t1 t2
        (Generate.stages src sha1 fuel) (Generate.stages (pre ++ L ++ post) sha2 fuel) := by
  obtain ⟨pre, e, h1, _⟩ := C16_layout_at_boundary h hL
  obtain ⟨tp, et, h2⟩ := h1 t1 ht
  refine ⟨pre, _, e, h2, ?_⟩
  apply Layout.relayout src _ sha1 sha2 fuel t1 _ ht h2
  rw [et, List.map_append, List.map_append, List.map_map]
  congr 1
  apply List.map_congr_left
  intro t _
  exact (Spec.erase_shiftTok _ t).symm

/-- the hypotheses are satisfiable in a non-trivial way: in `start S`, the point between the two tokens is a
scan point, and a comment followed by a tab is layout -/
example : Spec.Reach "start S".toList 0 [.startKw 0] " S".toList 5 ∧ Spec.Layout "// c\n\t".toList := by
  constructor
  · exact .emit (k := 4) (by rfl) (.refl _ _)
  · exact .comment (body := " c".toList) (by decide) (.ws (by decide) .nil)

end KikiVerif.C16

#print axioms KikiVerif.C16.C16_skip_whitespace
#print axioms KikiVerif.C16.C16_tokenize_eq_spec
#print axioms KikiVerif.C16.C16_skip_comment
#print axioms KikiVerif.C16.C16_trailing_comment
#print axioms KikiVerif.C16.C16_translation_invariant
#print axioms KikiVerif.C16.C16_layout_insensitive
#print axioms KikiVerif.C16.C16_layout_at_boundary
#print axioms KikiVerif.C16.C16_insert_layout_end_to_end
#print axioms KikiVerif.C16.C16_leading_whitespace_end_to_end
#print axioms KikiVerif.C16.C16_leading_whitespace
