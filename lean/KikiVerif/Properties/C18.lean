/-
C18 — the public ordered-set type behaves as a sorted mathematical set.

Statement (properties.jsonl): after any sequence of construction from an
iterator, insert and extend operations, the set yields each element it was
given exactly once, in strictly increasing order, `contains` answers membership
correctly, and equality / ordering between two sets depend only on their
element sets.

Quantifier: all histories, any element type with a lawful total order.
-/
import KikiVerif.Proofs.Oset

namespace KikiVerif.C18
open KikiVerif Oset Std

variable {α : Type} [Ord α] [TransOrd α] [LawfulEqOrd α]

/-- the mutating operations of the public API -/
inductive Op (α : Type) where
  | new                       -- `Oset::new()` / `Default`
  | fromIter (l : List α)     -- `FromIterator::from_iter`
  | insert (x : α)            -- `Oset::insert`
  | extend (l : List α)       -- `Extend::extend`

def apply (s : Oset α) : Op α → Oset α
  | .new => Oset.new
  | .fromIter l => Oset.ofList l
  | .insert x => s.insert x
  | .extend l => s.extend l

/-- the set after a history (histories start from the empty set) -/
def run (ops : List (Op α)) : Oset α := ops.foldl apply Oset.new

/-- the abstract (mathematical) set after the same history -/
def absApply (S : α → Prop) : Op α → (α → Prop)
  | .new => fun _ => False
  | .fromIter l => fun x => x ∈ l
  | .insert y => fun x => S x ∨ x = y
  | .extend l => fun x => S x ∨ x ∈ l

def absRun (ops : List (Op α)) : α → Prop := ops.foldl absApply (fun _ => False)

/-- invariant + refinement, one step -/
theorem step (s : Oset α) (S : α → Prop) (op : Op α)
    (hs : Sorted s.raw) (hm : ∀ x, x ∈ s.raw ↔ S x) :
    Sorted (apply s op).raw ∧ ∀ x, x ∈ (apply s op).raw ↔ absApply S op x := by
  cases op with
  | new => exact ⟨by simp [apply, Oset.new, Sorted], by simp [apply, Oset.new, absApply]⟩
  | fromIter l => exact ⟨ofList_sorted l, fun x => mem_ofList l x⟩
  | insert y =>
    refine ⟨insert_sorted s y hs, fun x => ?_⟩
    simp only [apply, absApply]
    rw [mem_insert s y x hs, hm x]
    exact Or.comm
  | extend l =>
    refine ⟨extend_sorted s l, fun x => ?_⟩
    simp only [apply, absApply]
    rw [mem_extend s l x, hm x]

theorem run_inv (ops : List (Op α)) :
    Sorted (run ops).raw ∧ ∀ x, x ∈ (run ops).raw ↔ absRun ops x := by
  unfold run absRun
  suffices h : ∀ (s : Oset α) (S : α → Prop), Sorted s.raw → (∀ x, x ∈ s.raw ↔ S x) →
      Sorted (ops.foldl apply s).raw ∧ ∀ x, x ∈ (ops.foldl apply s).raw ↔ ops.foldl absApply S x from
    h Oset.new (fun _ => False) (by simp [Oset.new, Sorted]) (by simp [Oset.new])
  induction ops with
  | nil => intro s S hs hm; exact ⟨hs, hm⟩
  | cons op ops ih =>
    intro s S hs hm
    obtain ⟨h1, h2⟩ := step s S op hs hm
    exact ih _ _ h1 h2

/-- **C18 (i)**: after every history the backing vector is strictly ascending -/
theorem C18_sorted (ops : List (Op α)) : Sorted (run ops).raw := (run_inv ops).1

/-- **C18 (ii)**: the elements are exactly those of the mathematical set -/
theorem C18_refines (ops : List (Op α)) (x : α) : x ∈ (run ops).raw ↔ absRun ops x := (run_inv ops).2 x

/-- **C18 (iii)**: `contains` decides membership -/
theorem C18_contains (ops : List (Op α)) (x : α) : (run ops).contains x = true ↔ absRun ops x := by
  rw [contains_iff _ _ (C18_sorted ops)]; exact C18_refines ops x

/-- **C18 (iv)**: iteration yields every element exactly once, in strictly increasing order -/
theorem C18_iter (ops : List (Op α)) :
    (run ops).toList.Nodup ∧ (run ops).toList.Pairwise (fun a b => compare a b = .lt) ∧
    ∀ x, x ∈ (run ops).toList ↔ absRun ops x :=
  ⟨(C18_sorted ops).nodup, C18_sorted ops, C18_refines ops⟩

/-- **C18 (v)**: two sets with the same elements have the same backing vector — hence the derived
`==`, `cmp` and `hash`, which only read that vector, depend on the element set alone -/
theorem C18_ext (ops₁ ops₂ : List (Op α)) (h : ∀ x, absRun ops₁ x ↔ absRun ops₂ x) :
    (run ops₁).raw = (run ops₂).raw := by
  apply sorted_ext _ _ (C18_sorted ops₁) (C18_sorted ops₂)
  intro x
  rw [C18_refines, C18_refines]; exact h x

/-- non-vacuity: concrete histories over `Nat`; the order of insertion is irrelevant -/
example : (run [Op.new, .insert 0, .insert 3, .insert 2, .insert 1, .insert 3] : Oset Nat).raw = [0, 1, 2, 3] ∧
    (run [Op.insert 3, .insert 1, .insert 0, .insert 1, .insert 2] : Oset Nat).raw = [0, 1, 2, 3] := by
  decide

end KikiVerif.C18

#print axioms KikiVerif.C18.C18_sorted
#print axioms KikiVerif.C18.C18_refines
#print axioms KikiVerif.C18.C18_contains
#print axioms KikiVerif.C18.C18_iter
#print axioms KikiVerif.C18.C18_ext
