/-
C14 — generate is deterministic.
The model is a function of the input text by construction, except at the three
places where the Rust code iterates over a hash collection; there the model
takes the contents in an arbitrary order, and the theorems here show the result
does not depend on it.  There are two such places (every other `HashMap`/`HashSet` in the crate is only
queried with `get`/`contains`/`insert`): the `HashSet<Transition>` collected into an `Oset` in
`normalize_machine` (`C14_ofList_perm`) and the two `HashMap`s of `TableBuilder` iterated in `build_as_is`
(`C14_table_order_independent`).
-/
import KikiVerif.Proofs.Oset
import KikiVerif.Proofs.Perm

namespace KikiVerif.C14
open KikiVerif Oset Std

variable {α : Type} [Ord α] [TransOrd α] [LawfulEqOrd α]

/-- collecting a hash set into an `Oset` gives the same vector whatever the iteration order -/
theorem C14_ofList_perm (l₁ l₂ : List α) (h : l₁.Perm l₂) : (Oset.ofList l₁).raw = (Oset.ofList l₂).raw := by
  apply sorted_ext _ _ (ofList_sorted l₁) (ofList_sorted l₂)
  intro x
  rw [mem_ofList, mem_ofList]
  exact h.mem_iff

/-- **site 2**: `build_as_is` returns the same table for every iteration order of the builder's maps -/
theorem C14_table_order_independent (c : Machine.Ctx) (m : Machine.Machine) (tb tb' : Table.TB)
    (h1 : Table.addActions c m m.states 0 ⟨[], []⟩ = .ok tb) (h2 : Table.addGotos m.transitions tb = .ok tb')
    (acts : List ((Nat × Nat) × (Machine.Item × LR.Action))) (gts : List ((Nat × Nat) × Nat))
    (ha : tb'.actions.Perm acts) (hg : tb'.gotos.Perm gts) :
    Table.buildAsIs (Table.emptyTable c m) acts gts =
      Table.buildAsIs (Table.emptyTable c m) tb'.actions tb'.gotos :=
  Table.machineToTable_order_independent c m tb tb' h1 h2 acts gts ha hg

end KikiVerif.C14

#print axioms KikiVerif.C14.C14_ofList_perm
#print axioms KikiVerif.C14.C14_table_order_independent
