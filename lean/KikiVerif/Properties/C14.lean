/-
C14 — generate is deterministic.
The model is a function of the input text by construction, except at the three
places where the Rust code iterates over a hash collection; there the model
takes the contents in an arbitrary order, and the theorems here show the result
does not depend on it.  (first layer: site 1, `HashSet<Transition>` → `Oset`)
-/
import KikiVerif.Proofs.Oset

namespace KikiVerif.C14
open KikiVerif Oset Std

variable {α : Type} [Ord α] [TransOrd α] [LawfulEqOrd α]

/-- collecting a hash set into an `Oset` gives the same vector whatever the iteration order -/
theorem C14_ofList_perm (l₁ l₂ : List α) (h : l₁.Perm l₂) : (Oset.ofList l₁).raw = (Oset.ofList l₂).raw := by
  apply sorted_ext _ _ (ofList_sorted l₁) (ofList_sorted l₂)
  intro x
  rw [mem_ofList, mem_ofList]
  exact h.mem_iff

end KikiVerif.C14

#print axioms KikiVerif.C14.C14_ofList_perm
