/-
C10 — static well-formedness rules are enforced and reported truthfully.
`Spec/WellFormed.lean` states the rules as a predicate on the AST, independently of the code.
-/
import KikiVerif.Model.Validate
import KikiVerif.Proofs.Validate
import KikiVerif.Proofs.Truthful

namespace KikiVerif.C10
open KikiVerif KikiVerif.Validate KikiVerif.Ast

theorem terminal_unique (f : File) (t : TermEnum) (h : getUnvalidatedTerminalEnum f = .ok t) :
    terminals f = [t] := by
  unfold getUnvalidatedTerminalEnum at h
  split at h
  · cases h
  · rename_i t' heq; cases h; exact heq
  · cases h

/-- `validate_ast` succeeds only with exactly one `terminal` declaration and one `start` -/
theorem C10_one_start_one_terminal (f : File) (v : VFile.File) (h : validateAst f = .ok v) :
    (∃ t, terminals f = [t]) ∧ (∃ s, starts f = [s] ∧ v.start = s.name) := by
  unfold validateAst at h
  simp only [bind, Res.bind] at h
  split at h <;> try cases h
  rename_i tenum hte
  split at h <;> try cases h
  rename_i nts hnts
  split at h <;> try cases h
  rename_i start hstart
  split at h <;> try cases h
  constructor
  · unfold getTerminalEnum at hte
    simp only [bind, Res.bind] at hte
    split at hte <;> try cases hte
    rename_i t ht
    exact ⟨t, terminal_unique f t ht⟩
  · unfold getStartSymbolName at hstart
    split at hstart
    · cases hstart
    · rename_i s hs
      split at hstart
      · cases hstart; exact ⟨s, hs, rfl⟩
      · cases hstart
    · cases hstart

/-- **C10, "Ok only if"**: validation succeeds only for files with exactly one start naming a defined
nonterminal, exactly one terminal declaration, every nonterminal reference a defined *nonterminal* and every
terminal reference a defined *terminal*, pairwise distinct top-level names (nonterminals, terminal variants,
terminal enum), per-enum distinct variant names and symbol sequences, and correct capitalisation -/
theorem C10_ok_sound (f : File) (v : VFile.File) (h : validateAst f = .ok v) : Spec.WellFormed f :=
  Validate.validate_ok_wellFormed h

/-- the hypotheses of `WellFormed` are satisfiable, and a cross-namespace reference is rejected
(the defect fixed by commit 1eea08d): a field typed with a terminal's name is not a defined nonterminal -/
example :
    let s : Ast.Item := .struct ⟨[], ⟨"S".toList, 13⟩, .named [⟨.id ⟨"x".toList, 17⟩, .n ⟨"A".toList, 20⟩⟩]⟩
    let t : Ast.Item := .terminal ⟨[], ⟨"T".toList, 33⟩, [⟨⟨"A".toList, 38⟩, .unit⟩]⟩
    validateAst ⟨[.start ⟨"S".toList, 6⟩, s, t]⟩ = .err (.undefinedNonterminal "A".toList 20) := by
  rfl

/-- **C10, "reported truthfully"**: whatever error `validate_ast` returns — with any number and combination
of simultaneous violations in the file — the variant, the name or symbol sequence and the byte positions it
carries describe a violation really present at those positions (`Spec.Truthful`: e.g. for `nameClash n p q`
the top-level definitions of the file contain `n` defined at `p` and, later, `n` defined at `q`; for
`undefinedNonterminal n p` an identifier `n` at `p` is used as a field symbol or start symbol and `n` is not
among the declared nonterminals — a terminal of that name does not count) -/
theorem C10_err_truthful (f : File) (e : KErr) (h : validateAst f = .err e) : Spec.Truthful f e :=
  Validate.validate_err_truthful h

/-- the two specifications are consistent: a truthful error report is possible only for a file that is not
well-formed -/
theorem C10_truthful_not_wellFormed (f : File) (e : KErr) (h : Spec.Truthful f e) : ¬ Spec.WellFormed f :=
  Validate.truthful_not_wellFormed h

/-- **C10, both directions**: validation never panics and accepts exactly the well-formed files -/
theorem C10_ok_iff_wellFormed (f : File) : (∃ v, validateAst f = .ok v) ↔ Spec.WellFormed f :=
  ⟨fun ⟨_, h⟩ => Validate.validate_ok_wellFormed h, Validate.wellFormed_validate_ok⟩

theorem C10_no_panic (f : File) (s : String) : validateAst f ≠ .panic s := Validate.validate_no_panic f s

end KikiVerif.C10

#print axioms KikiVerif.C10.C10_err_truthful
#print axioms KikiVerif.C10.C10_truthful_not_wellFormed
#print axioms KikiVerif.C10.C10_ok_iff_wellFormed
#print axioms KikiVerif.C10.C10_no_panic
#print axioms KikiVerif.C10.C10_one_start_one_terminal
#print axioms KikiVerif.C10.C10_ok_sound
