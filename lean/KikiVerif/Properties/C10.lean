/-
C10 — static well-formedness rules are enforced and reported truthfully.
(first layer: exactly one terminal declaration and exactly one start)
-/
import KikiVerif.Model.Validate

namespace KikiVerif.C10
open KikiVerif KikiVerif.Validate KikiVerif.Ast

theorem terminal_unique (f : File) (t : TermEnum) (h : getUnvalidatedTerminalEnum f = .ok t) :
    terminals f = [t] := by
  unfold getUnvalidatedTerminalEnum at h
  split at h
  · cases h
  · rename_i t' heq; cases h; exact heq
  · cases h

/-- `validate_ast` succeeds only with exactly one `terminal` declaration and one `start` -/
theorem C10_one_start_one_terminal (f : File) (v : VFile.File) (h : validateAst f = .ok v) :
    (∃ t, terminals f = [t]) ∧ (∃ s, starts f = [s] ∧ v.start = s.name) := by
  unfold validateAst at h
  simp only [bind, Res.bind] at h
  split at h <;> try cases h
  rename_i tenum hte
  split at h <;> try cases h
  rename_i nts hnts
  split at h <;> try cases h
  rename_i start hstart
  split at h <;> try cases h
  constructor
  · unfold getTerminalEnum at hte
    simp only [bind, Res.bind] at hte
    split at hte <;> try cases hte
    rename_i t ht
    exact ⟨t, terminal_unique f t ht⟩
  · unfold getStartSymbolName at hstart
    split at hstart
    · cases hstart
    · rename_i s hs
      split at hstart
      · cases hstart; exact ⟨s, hs, rfl⟩
      · cases hstart
    · cases hstart

end KikiVerif.C10

#print axioms KikiVerif.C10.C10_one_start_one_terminal
