/-
C17 — emitted tables are the canonical LALR(1) tables of the grammar.

For every validated file (`Proofs/Generator`, `Proofs/TableCells`; no per-grammar check involved):
  * `C17_items_exact`  — the item sets of the generated automaton, lookaheads included, are exactly the least
    fixed point of the LALR(1) propagation rules over its transition graph (`Machine.Deriv`: the augmented
    initial item with end-of-input in the start state; `[B → ·γ, b]` for every `b ∈ FIRST(β a)` in the state of
    `[A → α·Bβ, a]`; the dot moved along transitions, the contributions of all predecessor states united);
  * `C17_one_state_per_core` — no two states have the same set of cores; transitions are functional;
  * `C17_cells` — an ACTION cell is non-error iff an item of its state demands it there (reduce `A → α` exactly on
    the lookaheads of `[A → α·]`, accept on end of input for `[S' → S·]`, shift to the transition's target on the
    terminal right of a dot), GOTO cells are exactly the nonterminal transitions, everything else is `Err`/`None`.
  * `C17_is_lalr1` — the textbook definition itself: the generated automaton is the canonical LR(1) collection
    (`Machine.CanonState`: closure of `[S' → ·S, $]`; closures of the moved items of a canonical state) merged by
    core: every canonical state lies inside exactly one machine state, which has the same cores; every item of a
    machine state lies in a canonical state with that state's cores; every machine state is the merge of at least
    one canonical state.
What relates `Deriv` to the textbook definition is that the FIRST map is *exact*: it is proved closed under the
FIRST equations (`Proofs/First`, which gives completeness w.r.t. derivation trees: `Valid.first_complete_aux`)
and sound (`Proofs/FirstSound`: a terminal in `FIRST(B)` begins a sentential form derived from `B`, a nullable
mark means `B ⇒* ε`).  The equivalence of this propagation-rule characterisation with the
canonical-LR(1)-merged-by-core definition is `Proofs/Canonical.lalr_exact` (`C17_is_lalr1`); it is additionally
compared with an independent construction on every generated grammar (DESIGN.md §6.3).
-/
import KikiVerif.Model.Table
import KikiVerif.Proofs.Generator
import KikiVerif.Proofs.TableCells
import KikiVerif.Proofs.Encode
import KikiVerif.Proofs.FirstSound
import KikiVerif.Proofs.Canonical
import KikiVerif.Proofs.LalrConflict

namespace KikiVerif.C17
open KikiVerif.Table KikiVerif.Machine KikiVerif.LR

/-- `get_empty_table`: every action cell is `Err`, every goto cell `None` -/
theorem C17_empty_table (c : Ctx) (m : Machine) (s col : Nat) :
    (emptyTable c m).action s col = .err ∧ (emptyTable c m).goto s col = none := by
  constructor
  · unfold Table.action emptyTable
    simp only [List.getD_eq_getElem?_getD]
    cases h : (List.replicate (m.states.length * (c.nT + 1)) Action.err)[s * (c.nT + 1) + col]? with
    | none => rfl
    | some a =>
      have := List.getElem?_replicate (a := Action.err) (n := m.states.length * (c.nT + 1)) (i := s * (c.nT + 1) + col)
      rw [this] at h
      split at h
      · cases h; rfl
      · cases h
  · unfold Table.goto emptyTable
    simp only [List.getD_eq_getElem?_getD]
    cases h : (List.replicate (m.states.length * c.nN) (none : Option Nat))[s * c.nN + col]? with
    | none => rfl
    | some a =>
      have := List.getElem?_replicate (a := (none : Option Nat)) (n := m.states.length * c.nN) (i := s * c.nN + col)
      rw [this] at h
      split at h
      · cases h; rfl
      · cases h

theorem C17_items_exact (vf : VFile.File) (enc : Encode.Enc) (m : Machine) (fuel : Nat)
    (he : Encode.encode vf = some enc) (hm : machineOf enc.ctx fuel = some (some m)) :
    ∃ fm, firstSets enc.ctx fuel = some (some fm) ∧ Valid.firstClosedB enc.ctx.g (toTbl fm) = true ∧
      FmSound enc.ctx.g fm ∧
      ∀ s y, (s < m.states.length ∧ y ∈ m.states.getD s []) ↔ Deriv enc.ctx fm m.start m.transitions s y := by
  obtain ⟨fm, hfm, mok⟩ := machineOf_ok (Encode.encode_ok he).terms hm
  exact ⟨fm, hfm, (firstSets_closed hfm).1, firstSets_sound hfm, items_exact mok⟩

theorem C17_one_state_per_core (vf : VFile.File) (enc : Encode.Enc) (m : Machine) (fuel : Nat)
    (he : Encode.encode vf = some enc) (hm : machineOf enc.ctx fuel = some (some m)) :
    (∀ s1 s2, s1 < m.states.length → s2 < m.states.length →
      SameCores (m.states.getD s1 []) (m.states.getD s2 []) → s1 = s2) ∧
    (∀ t1 ∈ m.transitions, ∀ t2 ∈ m.transitions, t1.frm = t2.frm → t1.sym = t2.sym → t1.to = t2.to) := by
  obtain ⟨fm, _, mok⟩ := machineOf_ok (Encode.encode_ok he).terms hm
  exact ⟨mok.distinct, mok.func⟩

/-- **C17, the definition of the LALR(1) automaton**: canonical LR(1) collection merged by core -/
theorem C17_is_lalr1 (vf : VFile.File) (enc : Encode.Enc) (m : Machine) (fuel : Nat)
    (he : Encode.encode vf = some enc) (hm : machineOf enc.ctx fuel = some (some m)) :
    ∃ fm, firstSets enc.ctx fuel = some (some fm) ∧
      (∀ I, CanonState enc.ctx fm I → ∃ s, s < m.states.length ∧ SameCoresPS I (m.states.getD s []) ∧
          ∀ y, I y → y ∈ m.states.getD s []) ∧
      (∀ s, s < m.states.length → ∀ y ∈ m.states.getD s [],
          ∃ I, CanonState enc.ctx fm I ∧ SameCoresPS I (m.states.getD s []) ∧ I y) ∧
      (∀ s, s < m.states.length → ∃ I, CanonState enc.ctx fm I ∧ SameCoresPS I (m.states.getD s [])) := by
  have ok := Encode.encode_ok he
  obtain ⟨fm, hfm, mok⟩ := machineOf_ok ok.terms hm
  exact ⟨fm, hfm, lalr_exact ok (firstSets_closed hfm).2.1 mok⟩

theorem C17_cells (c : Ctx) (m : Machine) (t : Table) (h : machineToTable c m = .ok t) :
    (∀ s col, col ≤ c.nT → (t.action s col ≠ .err ↔
      ∃ st it, m.states[s]? = some st ∧ it ∈ st ∧ Table.demand c m s it = some (col, t.action s col))) ∧
    (∀ s b to, b < c.nN → (t.goto s b = some to ↔ (⟨s, to, .n b⟩ : Transition) ∈ m.transitions)) := by
  have cells := machineToTable_cells h
  constructor
  · intro s col hcol
    constructor
    · exact cells.justified s col hcol
    · rintro ⟨st, it, hst, hit, hd⟩
      have := cells.demand s st hst it hit _ _ hd
      intro e
      -- a demand is never the error action
      unfold Table.demand at hd
      rw [e] at hd
      split at hd
      · split at hd <;> cases hd
      · split at hd
        · cases hd
        · split at hd
          · cases hd
          · split at hd
            · cases hg : getShiftDest m s _ with
              | none => rw [hg] at hd; cases hd
              | some d => rw [hg] at hd; cases hd
            · cases hd
  · intro s b to hb
    exact ⟨cells.gotoJust s b to hb, fun htr => cells.gotoOf _ htr b rfl⟩

/-- **C17, the cells in the textbook's terms, every validated file**: the *kind* of every ACTION cell (shift /
reduce by rule `r` / accept / error — everything but the destination of a shift, which is a state number and is
pinned by `C17_cells` + `C17_is_lalr1` up to renumbering) is read off the canonical LR(1) collection alone: the cell
of state `s` on column `col` has the non-error kind `w` iff some canonical LR(1) state with the cores of `s` holds
an item that wants `w` on `col` (`Machine.want`: reduce `A → α` exactly on the lookaheads of `[A → α·, a]` in the
canonical states merged into `s`, accept on end of input for `[S' → S·]`, shift on the terminal right of a dot);
hence the error action everywhere else. -/
theorem C17_cells_lalr1 (vf : VFile.File) (enc : Encode.Enc) (m : Machine) (fuel : Nat)
    (he : Encode.encode vf = some enc) (hm : machineOf enc.ctx fuel = some (some m))
    (t : Table) (ht : machineToTable enc.ctx m = .ok t) :
    ∃ fm, firstSets enc.ctx fuel = some (some fm) ∧
      ∀ s, s < m.states.length → ∀ col, col ≤ enc.ctx.nT → ∀ w, w ≠ Want.err →
        (kindOf (t.action s col) = w ↔
          ∃ (I : Item → Prop) (y : Item), CanonState enc.ctx fm I ∧ SameCoresPS I (m.states.getD s []) ∧ I y ∧
            want enc.ctx y = some (col, w)) := by
  have ok := Encode.encode_ok he
  obtain ⟨fm, hfm, mok⟩ := machineOf_ok ok.terms hm
  have hlen := (firstSets_closed hfm).2.1
  have cells := machineToTable_cells ht
  refine ⟨fm, hfm, ?_⟩
  intro s hs col hcol w hw
  have hst : m.states[s]? = some (m.states.getD s []) := by
    rw [List.getD_eq_getElem?_getD, List.getElem?_eq_getElem hs]; rfl
  constructor
  · intro hk
    have hne : t.action s col ≠ .err := by
      intro e; rw [e] at hk; exact hw hk.symm
    obtain ⟨st, it, hst', hit, hd⟩ := cells.justified s col hcol hne
    rw [hst] at hst'; cases hst'
    obtain ⟨I, hI, hsc, hy⟩ := machine_in_canon ok hlen mok (mok.just s hs it hit)
    exact ⟨I, it, hI, hsc, hy, by rw [← hk]; exact (demand_want hd).1⟩
  · rintro ⟨I, y, hI, hsc, hy, hwant⟩
    obtain ⟨s', hs', hsc', hin⟩ := canon_in_machine ok hlen mok hI
    have hsame : SameCores (m.states.getD s' []) (m.states.getD s []) := fun p => (hsc' p).symm.trans (hsc p)
    have e := mok.distinct s' s hs' hs hsame
    subst e
    obtain ⟨a, hd, hk⟩ := want_demand mok hs (hin y hy) hwant
    rw [cells.demand s' _ hst y (hin y hy) col a hd]
    exact hk

/-- **C17, shift and goto entries = the canonical goto function, every validated file**: (1) along every transition
`s --X--> t'` of the generated automaton (by `C17_cells` these are exactly the shift destinations and the GOTO
cells), the canonical goto `closure(moved(I, X))` of any item set `I` with the cores of `s` — in particular of every
canonical LR(1) state merged into `s` — has the cores of `t'`; (2) wherever a canonical state merged into `s` has a
symbol `X` right of a dot, the automaton has a transition from `s` on `X`. -/
theorem C17_transitions_lalr1 (vf : VFile.File) (enc : Encode.Enc) (m : Machine) (fuel : Nat)
    (he : Encode.encode vf = some enc) (hm : machineOf enc.ctx fuel = some (some m)) :
    ∃ fm, firstSets enc.ctx fuel = some (some fm) ∧
      (∀ tr ∈ m.transitions, ∀ I : Item → Prop, SameCoresPS I (m.states.getD tr.frm []) →
        SameCoresPS (PClos enc.ctx fm (Moved enc.ctx I tr.sym)) (m.states.getD tr.to [])) ∧
      (∀ s, s < m.states.length → ∀ I : Item → Prop, CanonState enc.ctx fm I → SameCoresPS I (m.states.getD s []) →
        ∀ x X, I x → symRightOfDot enc.ctx x = some X → ∃ t', (⟨s, t', X⟩ : Transition) ∈ m.transitions) := by
  have ok := Encode.encode_ok he
  obtain ⟨fm, hfm, mok⟩ := machineOf_ok ok.terms hm
  have hlen := (firstSets_closed hfm).2.1
  exact ⟨fm, hfm, fun tr htr I hsc => transition_canon ok hlen mok htr hsc,
    fun s hs I _ hsc x X hx hsym => canon_transition mok hs hsc hx hsym⟩

end KikiVerif.C17

#print axioms KikiVerif.C17.C17_items_exact
#print axioms KikiVerif.C17.C17_one_state_per_core
#print axioms KikiVerif.C17.C17_is_lalr1
#print axioms KikiVerif.C17.C17_cells
#print axioms KikiVerif.C17.C17_empty_table
#print axioms KikiVerif.C17.C17_cells_lalr1
#print axioms KikiVerif.C17.C17_transitions_lalr1
