/-
C17 — emitted tables are the canonical LALR(1) tables of the grammar.
(first layer: the table starts out all-error and cells are only written by key)
-/
import KikiVerif.Model.Table

namespace KikiVerif.C17
open KikiVerif.Table KikiVerif.Machine KikiVerif.LR

/-- `get_empty_table`: every action cell is `Err`, every goto cell `None` -/
theorem C17_empty_table (c : Ctx) (m : Machine) (s col : Nat) :
    (emptyTable c m).action s col = .err ∧ (emptyTable c m).goto s col = none := by
  constructor
  · unfold Table.action emptyTable
    simp only [List.getD_eq_getElem?_getD]
    cases h : (List.replicate (m.states.length * (c.nT + 1)) Action.err)[s * (c.nT + 1) + col]? with
    | none => rfl
    | some a =>
      have := List.getElem?_replicate (a := Action.err) (n := m.states.length * (c.nT + 1)) (i := s * (c.nT + 1) + col)
      rw [this] at h
      split at h
      · cases h; rfl
      · cases h
  · unfold Table.goto emptyTable
    simp only [List.getD_eq_getElem?_getD]
    cases h : (List.replicate (m.states.length * c.nN) (none : Option Nat))[s * c.nN + col]? with
    | none => rfl
    | some a =>
      have := List.getElem?_replicate (a := (none : Option Nat)) (n := m.states.length * c.nN) (i := s * c.nN + col)
      rw [this] at h
      split at h
      · cases h; rfl
      · cases h

end KikiVerif.C17

#print axioms KikiVerif.C17.C17_empty_table
