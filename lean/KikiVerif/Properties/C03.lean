/-
C03 — rejection reports the first offending token (viable-prefix core).

`C03_viable`: for an automaton whose item cores lie in the inductive closure of
their kernels (`CoreSound`), every item `[A → α·β]` in the top state is
LR(0)-valid for the symbols spelled by the stack: the stack spells `δα` and
`S ⇒* δ A ζ`.  Hence a shift is only ever performed on a viable prefix — the
"no shift past a dead prefix" half of the property.  (The converse half and the
productivity step are `…_partial`, see DESIGN.md §7.)
-/
import KikiVerif.LR.Via

namespace KikiVerif.C03
open KikiVerif.LR

variable {T N : Type}

theorem C03_viable {g : Grammar T N} {A : Auto T N} (hcs : CoreSound g A) :
    ∀ ss γ, StkS A ss γ → ∀ top tl, ss = top :: tl → ∀ r d a, A.items top ⟨r, d, a⟩ → Viable g γ r d :=
  viable hcs

end KikiVerif.C03

#print axioms KikiVerif.C03.C03_viable
