/-
C03 — rejection reports the first offending token, or None at end of input.

The emitted `parse` is `LR.runCfg` over the emitted tables.  `Err(Some(t))` is the final result `.err` in a
configuration whose rest starts with `t`; `Err(None)` is `.err` with an empty rest (the driver peeks one
token; the rest of a configuration is exactly what has not been pulled from the iterator, so "pulls nothing
beyond the reported token" is the fact that the run up to the error does not depend on what follows `t`:
`C03_lookahead_only`).

* `C03_viable` (every automaton with `CoreSound`): every item of the top state is LR(0)-valid for the symbols
  spelled by the stack — a shift is only ever performed on a viable prefix.
* `C03_not_early` (every automaton with `Complete`): when the run stops with an error on lookahead `a` after
  consuming `pre`, no sentence starts with `pre ++ [a]`.
* `C03_first_offending` (every grammar and automaton accepted by the three executable validators
  `validB`, `tightB`, `productiveB`; every token sequence, any payload type): the complete statement —
  the consumed tokens extend to a sentence, the reported token is the first that cannot, `Err(None)` only
  for a proper prefix of a sentence.
The validators are run (compiled) on the machine and table the implementation built, for every generated
grammar of the correspondence run, and by the kernel on the tables of `parser.rs` (`C03_front_end`).
For grammars with unproductive nonterminals (`productiveB = false`) the statement is about the canonical
LR(1) parser; that case is compared against an independent canonical-LR(1) driver (tools/oracle.py) — no
theorem (`…_partial`, DESIGN.md §7).
-/
import KikiVerif.LR.Via
import KikiVerif.LR.Early
import KikiVerif.LR.Extend
import KikiVerif.Proofs.Run
import KikiVerif.Proofs.Tight
import KikiVerif.Properties.C09
import KikiVerif.Proofs.Universal
import KikiVerif.Proofs.Encode

namespace KikiVerif.C03
open KikiVerif.LR

variable {T N P : Type}

theorem C03_viable {g : Grammar T N} {A : Auto T N} (hcs : CoreSound g A) :
    ∀ ss γ, StkS A ss γ → ∀ top tl, ss = top :: tl → ∀ r d a, A.items top ⟨r, d, a⟩ → Viable g γ r d :=
  viable hcs

/-- the error is never reported early -/
theorem C03_not_early {g : Grammar T N} {A : Auto T N} (hc : Complete (P := P) g A)
    {pre : List (Tok T P)} {a : Tok T P} {r : List (Tok T P)} {c : Cfg T P}
    (hrun : Steps g A ⟨[A.start], [], pre ++ a :: r⟩ c) (hrest : c.rest = a :: r) (herr : step g A c = .err)
    (r' : List (Tok T P)) (t : Tree T P) (hwf : WF g t (.n g.start)) : t.yield ≠ pre ++ a :: r' :=
  no_early_error hc hrun hrest herr r' t hwf

/-- nothing after the lookahead influences the run: replacing what follows `a` by anything else gives the same
states and nodes (the emitted `parse` has pulled exactly `pre ++ [a]` from the iterator at that point) -/
theorem C03_lookahead_only {g : Grammar T N} {A : Auto T N} {a : Tok T P} {r r' : List (Tok T P)}
    {c0 c : Cfg T P} (h : Steps g A c0 c) (q q2 : List (Tok T P)) (h0 : c0.rest = q ++ a :: r)
    (h1 : c.rest = q2 ++ a :: r) :
    Steps g A ⟨c0.states, c0.nodes, q ++ a :: r'⟩ ⟨c.states, c.nodes, q2 ++ a :: r'⟩ :=
  steps_replace h q q2 h0 h1

open KikiVerif.Valid in
/-- **C03 for a validated automaton of a productive grammar**, every token sequence `w`, every payload type:
if the loop of the emitted `parse` ends with an error in configuration `cf`, then with `pre` the consumed
tokens (`w = pre ++ cf.rest`):
1. `pre` is a prefix of some sentence (hence so is every shorter prefix `w[0..=j]`, `j <` the reported index);
2. if a lookahead token `a` is left (`Err(Some(a))`), no sentence starts with `pre ++ [a]` — `a`, at index
   `pre.length`, is the first offending token;
3. if the input is exhausted (`Err(None)`), `w` is not a sentence (and by 1 a proper prefix of one). -/
theorem C03_first_offending {P : Type} [Inhabited P] {g : Grammar Nat Nat} {nN : Nat} {C : Cert}
    (hv : validB g nN C = true) (ht : tightB g nN C = true) (hp : productiveB g = true)
    (w : List (Tok Nat P)) (fuel : Nat) (cf : Cfg Nat P)
    (hrun : runCfg g (mkAuto C) fuel ⟨[(mkAuto C).start], [], w⟩ = some (.err, cf)) :
    ∃ pre, w = pre ++ cf.rest ∧
      (∃ suf t, WF g t (.n g.start) ∧ t.yield = pre ++ suf) ∧
      (∀ a r, cf.rest = a :: r → ∀ r' t, WF g t (.n g.start) → t.yield ≠ pre ++ a :: r') ∧
      (cf.rest = [] → ∀ t, WF g t (.n g.start) → t.yield ≠ w) := by
  obtain ⟨hsteps, herr⟩ := steps_of_runCfg fuel _ _ _ hrun
  exact valid_tight_first_offending hv ht hp hsteps herr

/-- **C03 for every validated file whose nonterminals are all productive** (generator theorem,
`Proofs/Universal`; no per-grammar validation involved): whenever the generator stages succeed, an error stop of
the emitted parse loop over the emitted tables satisfies the three clauses of `C03_first_offending`.  Beyond
`Sound ∧ Complete` this uses that every state's cores are generated from its kernel and every transition
target has a kernel item (`coreSound_of_generator`). -/
theorem C03_every_grammar {P : Type} [Inhabited P] (vf : VFile.File) (enc : Encode.Enc) (m : Machine.Machine)
    (t : Table.Table) (fuel : Nat) (he : Encode.encode vf = some enc)
    (hm : Machine.machineOf enc.ctx fuel = some (some m)) (ht : Table.machineToTable enc.ctx m = .ok t)
    (hp : Valid.productiveB enc.ctx.g = true)
    (w : List (Tok Nat P)) (fuel' : Nat) (cf : Cfg Nat P)
    (hrun : runCfg enc.ctx.g (Driver.autoOfTable t) fuel' ⟨[(Driver.autoOfTable t).start], [], w⟩ = some (.err, cf)) :
    ∃ pre, w = pre ++ cf.rest ∧
      (∃ suf tr, WF enc.ctx.g tr (.n enc.ctx.g.start) ∧ tr.yield = pre ++ suf) ∧
      (∀ a r, cf.rest = a :: r → ∀ r' tr, WF enc.ctx.g tr (.n enc.ctx.g.start) → tr.yield ≠ pre ++ a :: r') ∧
      (cf.rest = [] → ∀ tr, WF enc.ctx.g tr (.n enc.ctx.g.start) → tr.yield ≠ w) :=
  Universal.emitted_parser_first_offending (Encode.encode_ok he) hm ht hp w fuel' cf hrun

/-! ### the hypotheses are satisfiable: Kiki's own front-end parser -/

open KikiVerif.FrontParse KikiVerif.Generated in
set_option maxRecDepth 1000000 in
/-- **kernel-checked** on the tables checked into `parser.rs`: every item lies in the closure of its state's
kernel, no transition leads to an empty state, and every nonterminal of the Kiki grammar is productive -/
theorem C03_front_end :
    Valid.tightB kikiG ParserRs.nonterminalNames.length C09.parserCert = true ∧ Valid.productiveB kikiG = true := by
  decide +kernel

open KikiVerif.FrontParse KikiVerif.Generated KikiVerif.Valid in
/-- hence Kiki's own parser of `.kiki` files (the tables of `parser.rs`) reports the first offending token -/
theorem C03_front_end_first_offending {P : Type} [Inhabited P] (w : List (Tok Nat P)) (fuel : Nat) (cf : Cfg Nat P)
    (hrun : runCfg kikiG (mkAuto C09.parserCert) fuel ⟨[(mkAuto C09.parserCert).start], [], w⟩ = some (.err, cf)) :
    ∃ pre, w = pre ++ cf.rest ∧
      (∃ suf t, WF kikiG t (.n kikiG.start) ∧ t.yield = pre ++ suf) ∧
      (∀ a r, cf.rest = a :: r → ∀ r' t, WF kikiG t (.n kikiG.start) → t.yield ≠ pre ++ a :: r') ∧
      (cf.rest = [] → ∀ t, WF kikiG t (.n kikiG.start) → t.yield ≠ w) :=
  C03_first_offending C09.C09_table_valid C03_front_end.1 C03_front_end.2 w fuel cf hrun

/-- **every non-sentence is rejected, per certified table**: with the termination certificate of `LR/Halt`
(evaluated by the correspondence run on the table of every accepted grammar), the emitted parse loop *stops* on
every token sequence that is not a sentence, and stops with an error — which, when every nonterminal is
productive, reports the first offending token (`C03_every_grammar`) -/
theorem C03_framed_rejects {P : Type} (vf : VFile.File) (enc : Encode.Enc) (m : Machine.Machine)
    (t : Table.Table) (fuel : Nat) (he : Encode.encode vf = some enc)
    (hm : Machine.machineOf enc.ctx fuel = some (some m)) (ht : Table.machineToTable enc.ctx m = .ok t)
    (fm : List Machine.FirstSet) (hcert : Halt.certifiedF (Assemble.certOf enc.ctx fm m t) enc.ctx.g = true)
    (w : List (Tok Nat P)) (hns : ¬ ∃ tr : Tree Nat P, WF enc.ctx.g tr (.n enc.ctx.g.start) ∧ tr.yield = w) :
    ∃ fuel' cf, runCfg enc.ctx.g (Driver.autoOfTable t) fuel' ⟨[(Driver.autoOfTable t).start], [], w⟩ = some (.err, cf) := by
  obtain ⟨fuel', r, cf, hrun, hnp, hiff⟩ := Universal.emitted_parser_decidesF (Encode.encode_ok he) hm ht fm hcert w
  refine ⟨fuel', cf, ?_⟩
  cases r with
  | err => exact hrun
  | panic => exact absurd rfl hnp
  | ok tr => exact absurd (hiff.mp ⟨tr, rfl⟩) hns
  | cont c' => exact absurd rfl (runCfg_ne_cont _ _ _ _ hrun c')

end KikiVerif.C03

#print axioms KikiVerif.C03.C03_front_end_first_offending
#print axioms KikiVerif.C03.C03_every_grammar
#print axioms KikiVerif.C03.C03_viable
#print axioms KikiVerif.C03.C03_not_early
#print axioms KikiVerif.C03.C03_lookahead_only
#print axioms KikiVerif.C03.C03_first_offending
#print axioms KikiVerif.C03.C03_front_end
#print axioms KikiVerif.C03.C03_framed_rejects
