/-
C06 — emitted type definitions and parse signature mirror the declarations.
(first layer: names and order of the emitted items, start type and terminal
enum of the `parse` signature)
-/
import KikiVerif.Proofs.Emit

namespace KikiVerif.C06
open KikiVerif KikiVerif.Emit

def TypeDef.name : TypeDef → Str
  | .struct _ n _ => n
  | .enum _ n _ => n

def TypeDef.isStruct : TypeDef → Bool
  | .struct .. => true
  | .enum .. => false

def isStructDecl : VFile.Nonterminal → Bool
  | .struct _ => true
  | .enum _ => false

theorem typeDefOf_name (te : VFile.TermEnum) (n : VFile.Nonterminal) (d : TypeDef)
    (h : typeDefOf te n = some d) : TypeDef.name d = n.name ∧ TypeDef.isStruct d = isStructDecl n := by
  cases n with
  | struct s =>
    simp only [typeDefOf, Option.map_eq_some_iff] at h
    obtain ⟨b, _, rfl⟩ := h
    exact ⟨rfl, rfl⟩
  | enum e =>
    simp only [typeDefOf, Option.map_eq_some_iff] at h
    obtain ⟨b, _, rfl⟩ := h
    exact ⟨rfl, rfl⟩

theorem mapM_names (te : VFile.TermEnum) : ∀ (ns : List VFile.Nonterminal) (ds : List TypeDef),
    ns.mapM (typeDefOf te) = some ds →
    ds.map TypeDef.name = ns.map (·.name) ∧ ds.map TypeDef.isStruct = ns.map isStructDecl := by
  intro ns
  induction ns with
  | nil => intro ds h; simp at h; subst h; exact ⟨rfl, rfl⟩
  | cons n ns ih =>
    intro ds h
    obtain ⟨d, ds', hd, hds, rfl⟩ := mapM_option_cons _ _ _ _ h
    obtain ⟨h1, h2⟩ := typeDefOf_name te n d hd
    obtain ⟨i1, i2⟩ := ih ds' hds
    simp [h1, h2, i1, i2]

/-- one public item per nonterminal, same names, same order, struct for struct and enum for enum;
the `parse` signature names the start type and the terminal enum -/
theorem C06_items_and_signature {f : VFile.File} {enc : Encode.Enc} {t : Table.Table} {sha : Str} {m : Module}
    (h : moduleOf f enc t sha = some m) :
    m.types.map TypeDef.name = f.nonterminals.map (·.name) ∧
    m.types.map TypeDef.isStruct = f.nonterminals.map isStructDecl ∧
    m.startType = f.start ∧ m.tenumName = f.tenum.name := by
  obtain ⟨_, _, h3, _, h5, _, _, h8, _⟩ := moduleOf_spec h
  obtain ⟨a, b⟩ := mapM_names _ _ _ h8
  exact ⟨a, b, h5, h3⟩

end KikiVerif.C06

#print axioms KikiVerif.C06.C06_items_and_signature
