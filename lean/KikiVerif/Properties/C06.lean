/-
C06 — emitted type definitions and parse signature mirror the declarations.
(first layer: names and order of the emitted items, start type and terminal
enum of the `parse` signature)
-/
import KikiVerif.Proofs.Emit

namespace KikiVerif.C06
open KikiVerif KikiVerif.Emit

def TypeDef.name : TypeDef → Str
  | .struct _ n _ => n
  | .enum _ n _ => n

def TypeDef.isStruct : TypeDef → Bool
  | .struct .. => true
  | .enum .. => false

def isStructDecl : VFile.Nonterminal → Bool
  | .struct _ => true
  | .enum _ => false

theorem typeDefOf_name (te : VFile.TermEnum) (n : VFile.Nonterminal) (d : TypeDef)
    (h : typeDefOf te n = some d) : TypeDef.name d = n.name ∧ TypeDef.isStruct d = isStructDecl n := by
  cases n with
  | struct s =>
    simp only [typeDefOf, Option.map_eq_some_iff] at h
    obtain ⟨b, _, rfl⟩ := h
    exact ⟨rfl, rfl⟩
  | enum e =>
    simp only [typeDefOf, Option.map_eq_some_iff] at h
    obtain ⟨b, _, rfl⟩ := h
    exact ⟨rfl, rfl⟩

theorem mapM_names (te : VFile.TermEnum) : ∀ (ns : List VFile.Nonterminal) (ds : List TypeDef),
    ns.mapM (typeDefOf te) = some ds →
    ds.map TypeDef.name = ns.map (·.name) ∧ ds.map TypeDef.isStruct = ns.map isStructDecl := by
  intro ns
  induction ns with
  | nil => intro ds h; simp at h; subst h; exact ⟨rfl, rfl⟩
  | cons n ns ih =>
    intro ds h
    obtain ⟨d, ds', hd, hds, rfl⟩ := mapM_option_cons _ _ _ _ h
    obtain ⟨h1, h2⟩ := typeDefOf_name te n d hd
    obtain ⟨i1, i2⟩ := ih ds' hds
    simp [h1, h2, i1, i2]

/-- one public item per nonterminal, same names, same order, struct for struct and enum for enum;
the `parse` signature names the start type and the terminal enum -/
theorem C06_items_and_signature {f : VFile.File} {enc : Encode.Enc} {t : Table.Table} {sha : Str} {m : Module}
    (h : moduleOf f enc t sha = some m) :
    m.types.map TypeDef.name = f.nonterminals.map (·.name) ∧
    m.types.map TypeDef.isStruct = f.nonterminals.map isStructDecl ∧
    m.startType = f.start ∧ m.tenumName = f.tenum.name := by
  obtain ⟨_, _, h3, _, h5, _, _, h8, _⟩ := moduleOf_spec h
  obtain ⟨a, b⟩ := mapM_names _ _ _ h8
  exact ⟨a, b, h5, h3⟩

/-! ### fields: what each emitted item contains -/

open Ast in
/-- the fields the user named (a `_` field is not part of the emitted type), in order -/
def usedNamed (fs : List NamedField) : List (Str × SymId) :=
  fs.filterMap fun f => match f.name with | .id i => some (i.name, f.sym) | .us _ => none

open Ast in
def usedTuple (fs : List TupleField) : List SymId :=
  fs.filterMap fun | .used s => some s | .skipped _ => none

open Ast in
/-- the Rust type of a field of symbol `s`: `Box<N>` for a nonterminal, the terminal's declared payload type
(looked up in the terminal enum) for a terminal -/
def SymTy (te : VFile.TermEnum) (s : SymId) (ty : Str) : Prop :=
  match s with
  | .n i => ty = L "Box<" ++ i.name ++ L ">"
  | .t i => te.getType i.name = some ty

open Ast in
theorem usedNamed_cons_id {f : NamedField} {fs : List NamedField} {i : Ident} (h : f.name = .id i) :
    usedNamed (f :: fs) = (i.name, f.sym) :: usedNamed fs := by
  simp only [usedNamed, List.filterMap_cons, h]

open Ast in
theorem usedNamed_cons_us {f : NamedField} {fs : List NamedField} {p : Nat} (h : f.name = .us p) :
    usedNamed (f :: fs) = usedNamed fs := by
  simp only [usedNamed, List.filterMap_cons, h]

open Ast in
theorem usedTuple_cons_used (s : SymId) (fs : List TupleField) : usedTuple (.used s :: fs) = s :: usedTuple fs := by
  simp only [usedTuple, List.filterMap_cons]

open Ast in
theorem usedTuple_cons_skipped (s : SymId) (fs : List TupleField) : usedTuple (.skipped s :: fs) = usedTuple fs := by
  simp only [usedTuple, List.filterMap_cons]

theorem fieldType_symTy {te : VFile.TermEnum} {s : Ast.SymId} {ty : Str} (h : fieldType te s = some ty) : SymTy te s ty := by
  cases s with
  | n i => simp only [fieldType, Option.some.injEq] at h; exact h.symm
  | t i => exact h

open Ast in
theorem namedFieldTypes_spec (te : VFile.TermEnum) : ∀ (fs : List NamedField) (r : List (Str × Str)),
    namedFieldTypes te fs = some r →
    r.map (·.1) = (usedNamed fs).map (·.1) ∧
    ∀ (k : Nat) (p : Str × Str) (q : Str × SymId), r[k]? = some p → (usedNamed fs)[k]? = some q → SymTy te q.2 p.2 := by
  intro fs
  induction fs with
  | nil => intro r h; simp [namedFieldTypes] at h; subst h; exact ⟨rfl, by intro k p q hp; simp at hp⟩
  | cons f fs ih =>
    intro r h
    simp only [namedFieldTypes] at h
    cases hn : f.name with
    | us p0 =>
      rw [hn] at h
      obtain ⟨i1, i2⟩ := ih r h
      rw [usedNamed_cons_us hn]
      exact ⟨i1, i2⟩
    | id i =>
      rw [hn] at h
      simp only [Option.bind_eq_bind, Option.pure_def] at h
      cases hty : fieldType te f.sym with
      | none => rw [hty] at h; cases h
      | some ty =>
        rw [hty] at h
        simp only [Option.bind_some] at h
        cases hrest : namedFieldTypes te fs with
        | none => rw [hrest] at h; cases h
        | some rest =>
          rw [hrest] at h
          simp only [Option.bind_some, Option.some.injEq] at h
          subst h
          obtain ⟨i1, i2⟩ := ih rest hrest
          rw [usedNamed_cons_id hn]
          simp only [List.map_cons]
          refine ⟨by rw [i1], ?_⟩
          intro k p q hp hq
          cases k with
          | zero =>
            simp only [List.getElem?_cons_zero, Option.some.injEq] at hp hq
            subst hp; subst hq
            exact fieldType_symTy hty
          | succ k =>
            simp only [List.getElem?_cons_succ] at hp hq
            exact i2 k p q hp hq

open Ast in
theorem tupleFieldTypes_spec (te : VFile.TermEnum) : ∀ (fs : List TupleField) (r : List Str),
    tupleFieldTypes te fs = some r →
    r.length = (usedTuple fs).length ∧
    ∀ (k : Nat) (p : Str) (q : SymId), r[k]? = some p → (usedTuple fs)[k]? = some q → SymTy te q p := by
  intro fs
  induction fs with
  | nil => intro r h; simp [tupleFieldTypes] at h; subst h; exact ⟨rfl, by intro k p q hp; simp at hp⟩
  | cons f fs ih =>
    intro r h
    cases f with
    | skipped s0 =>
      simp only [tupleFieldTypes] at h
      obtain ⟨i1, i2⟩ := ih r h
      rw [usedTuple_cons_skipped]
      exact ⟨i1, i2⟩
    | used s0 =>
      simp only [tupleFieldTypes, Option.bind_eq_bind, Option.pure_def] at h
      cases hty : fieldType te s0 with
      | none => rw [hty] at h; cases h
      | some ty =>
        rw [hty] at h
        simp only [Option.bind_some] at h
        cases hrest : tupleFieldTypes te fs with
        | none => rw [hrest] at h; cases h
        | some rest =>
          rw [hrest] at h
          simp only [Option.bind_some, Option.some.injEq] at h
          subst h
          obtain ⟨i1, i2⟩ := ih rest hrest
          rw [usedTuple_cons_used]
          simp only [List.length_cons]
          refine ⟨by rw [i1], ?_⟩
          intro k p q hp hq
          cases k with
          | zero =>
            simp only [List.getElem?_cons_zero, Option.some.injEq] at hp hq
            subst hp; subst hq
            exact fieldType_symTy hty
          | succ k =>
            simp only [List.getElem?_cons_succ] at hp hq
            exact i2 k p q hp hq

open Ast in
/-- what the emitted field list of a fieldset is: unit-like when no field is used (`_` fields are omitted), else
the used fields in declaration order, named fields with their names, each with `Box<N>` or the terminal's
payload type -/
def BodyMirrors (te : VFile.TermEnum) : Fieldset → Body → Prop
  | .empty, b => b = .unit
  | .named fs, b =>
    (usedNamed fs = [] ∧ b = .unit) ∨
    (usedNamed fs ≠ [] ∧ ∃ r, b = .named r ∧ r.map (·.1) = (usedNamed fs).map (·.1) ∧
      ∀ (k : Nat) (p : Str × Str) (q : Str × SymId), r[k]? = some p → (usedNamed fs)[k]? = some q → SymTy te q.2 p.2)
  | .tuple fs, b =>
    (usedTuple fs = [] ∧ b = .unit) ∨
    (usedTuple fs ≠ [] ∧ ∃ r, b = .tuple r ∧ r.length = (usedTuple fs).length ∧
      ∀ (k : Nat) (p : Str) (q : SymId), r[k]? = some p → (usedTuple fs)[k]? = some q → SymTy te q p)

open Ast in
theorem usedNamed_nil_iff (fs : List NamedField) : usedNamed fs = [] ↔ fs.any NamedField.isUsed = false := by
  induction fs with
  | nil => simp [usedNamed]
  | cons f fs ih =>
    cases hn : f.name with
    | us p => rw [usedNamed_cons_us hn]; simp only [List.any_cons, NamedField.isUsed, hn, Bool.false_or]; exact ih
    | id i => rw [usedNamed_cons_id hn]; simp [NamedField.isUsed, hn]

open Ast in
theorem usedTuple_nil_iff (fs : List TupleField) : usedTuple fs = [] ↔ fs.any TupleField.isUsed = false := by
  induction fs with
  | nil => simp [usedTuple]
  | cons f fs ih =>
    cases f with
    | skipped s => rw [usedTuple_cons_skipped]; simp only [List.any_cons, TupleField.isUsed, Bool.false_or]; exact ih
    | used s => rw [usedTuple_cons_used]; simp [TupleField.isUsed]

theorem bodyOf_mirrors {te : VFile.TermEnum} {fs : Ast.Fieldset} {b : Body} (h : bodyOf te fs = some b) :
    BodyMirrors te fs b := by
  cases fs with
  | empty => simp only [bodyOf, Option.some.injEq] at h; exact h.symm
  | named flds =>
    simp only [bodyOf] at h
    by_cases hu : flds.any Ast.NamedField.isUsed = true
    · rw [hu] at h
      simp only [Bool.not_true, Bool.false_eq_true, if_false, Option.map_eq_some_iff] at h
      obtain ⟨r, hr, rfl⟩ := h
      obtain ⟨a1, a2⟩ := namedFieldTypes_spec te flds r hr
      exact Or.inr ⟨by rw [Ne, usedNamed_nil_iff]; simp [hu], r, rfl, a1, a2⟩
    · have hf : flds.any Ast.NamedField.isUsed = false := by simpa using hu
      rw [hf] at h
      simp only [Bool.not_false, if_true, Option.some.injEq] at h
      exact Or.inl ⟨(usedNamed_nil_iff flds).mpr hf, h.symm⟩
  | tuple flds =>
    simp only [bodyOf] at h
    by_cases hu : flds.any Ast.TupleField.isUsed = true
    · rw [hu] at h
      simp only [Bool.not_true, Bool.false_eq_true, if_false, Option.map_eq_some_iff] at h
      obtain ⟨r, hr, rfl⟩ := h
      obtain ⟨a1, a2⟩ := tupleFieldTypes_spec te flds r hr
      exact Or.inr ⟨by rw [Ne, usedTuple_nil_iff]; simp [hu], r, rfl, a1, a2⟩
    · have hf : flds.any Ast.TupleField.isUsed = false := by simpa using hu
      rw [hf] at h
      simp only [Bool.not_false, if_true, Option.some.injEq] at h
      exact Or.inl ⟨(usedTuple_nil_iff flds).mpr hf, h.symm⟩

/-- an emitted item mirrors its declaration, field by field -/
def DefMirrors (te : VFile.TermEnum) : VFile.Nonterminal → TypeDef → Prop
  | .struct s, .struct _ name body => name = s.name.name ∧ BodyMirrors te s.fieldset body
  | .enum e, .enum _ name vs =>
    name = e.name.name ∧ vs.map (·.1) = e.variants.map (·.name.name) ∧
    ∀ (k : Nat) (v : Ast.Variant) (p : Str × Body), e.variants[k]? = some v → vs[k]? = some p → BodyMirrors te v.fieldset p.2
  | _, _ => False

theorem variants_mirror (te : VFile.TermEnum) : ∀ (vs : List Ast.Variant) (r : List (Str × Body)),
    (vs.mapM fun v => (bodyOf te v.fieldset).map fun b => (v.name.name, b)) = some r →
    r.map (·.1) = vs.map (·.name.name) ∧
    ∀ (k : Nat) (v : Ast.Variant) (p : Str × Body), vs[k]? = some v → r[k]? = some p → BodyMirrors te v.fieldset p.2 := by
  intro vs
  induction vs with
  | nil => intro r h; simp at h; subst h; exact ⟨rfl, by intro k v p hv; simp at hv⟩
  | cons v vs ih =>
    intro r h
    obtain ⟨y, ys, h1, h2, rfl⟩ := mapM_option_cons _ _ _ _ h
    simp only [Option.map_eq_some_iff] at h1
    obtain ⟨b, hb, rfl⟩ := h1
    obtain ⟨i1, i2⟩ := ih ys h2
    refine ⟨by simp [i1], ?_⟩
    intro k v' p hv hp
    cases k with
    | zero =>
      simp only [List.getElem?_cons_zero, Option.some.injEq] at hv hp
      subst hv; subst hp
      exact bodyOf_mirrors hb
    | succ k =>
      simp only [List.getElem?_cons_succ] at hv hp
      exact i2 k v' p hv hp

theorem typeDefOf_mirrors {te : VFile.TermEnum} {n : VFile.Nonterminal} {d : TypeDef} (h : typeDefOf te n = some d) :
    DefMirrors te n d := by
  cases n with
  | struct s =>
    simp only [typeDefOf, Option.map_eq_some_iff] at h
    obtain ⟨b, hb, rfl⟩ := h
    exact ⟨rfl, bodyOf_mirrors hb⟩
  | enum e =>
    simp only [typeDefOf, Option.map_eq_some_iff] at h
    obtain ⟨vs, hvs, rfl⟩ := h
    obtain ⟨a1, a2⟩ := variants_mirror te e.variants vs hvs
    exact ⟨rfl, a1, a2⟩

theorem mapM_mirrors (te : VFile.TermEnum) : ∀ (ns : List VFile.Nonterminal) (ds : List TypeDef),
    ns.mapM (typeDefOf te) = some ds →
    ∀ (k : Nat) (n : VFile.Nonterminal) (d : TypeDef), ns[k]? = some n → ds[k]? = some d → DefMirrors te n d := by
  intro ns
  induction ns with
  | nil => intro ds h k n d hn; simp at hn
  | cons n0 ns ih =>
    intro ds h k n d hn hd
    obtain ⟨d0, ds', h1, h2, rfl⟩ := mapM_option_cons _ _ _ _ h
    cases k with
    | zero =>
      simp only [List.getElem?_cons_zero, Option.some.injEq] at hn hd
      subst hn; subst hd
      exact typeDefOf_mirrors h1
    | succ k =>
      simp only [List.getElem?_cons_succ] at hn hd
      exact ih ds' h2 k n d hn hd

/-- **C06, field level**: the `k`-th emitted item mirrors the `k`-th declaration: same name; a struct's field list,
and each enum variant's (same variant names, same order), is unit-like when no field is used and otherwise
lists exactly the used fields in declaration order — `_` fields omitted, named fields under their names —
typed `Box<N>` for a nonterminal `N` and with the terminal's declared payload type for a terminal -/
theorem C06_fields {f : VFile.File} {enc : Encode.Enc} {t : Table.Table} {sha : Str} {m : Module}
    (h : moduleOf f enc t sha = some m) (k : Nat) (n : VFile.Nonterminal) (d : TypeDef)
    (hn : f.nonterminals[k]? = some n) (hd : m.types[k]? = some d) : DefMirrors f.tenum n d := by
  obtain ⟨_, _, _, _, _, _, _, h8, _⟩ := moduleOf_spec h
  exact mapM_mirrors _ _ _ h8 k n d hn hd

end KikiVerif.C06

#print axioms KikiVerif.C06.C06_items_and_signature
#print axioms KikiVerif.C06.C06_fields
