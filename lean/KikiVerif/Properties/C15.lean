/-
C15 — the emitted header carries the source hash; get_grammar_hash reads it back.

`C15_spec`: for every text, `get_grammar_hash` returns the remainder (after one
`// @sha256 `) of the first line starting with `// @sha256 ` inside the leading
block of `//` lines, and `None` if there is none.
-/
import KikiVerif.Model.Hash

namespace KikiVerif.C15
open KikiVerif KikiVerif.Hash KikiVerif.Text

/-- the statement of the property, written with `takeWhile` / `find?` -/
def specHash (text : Str) : Option Str :=
  let block := (lines text).takeWhile (fun l => startsWith l "//".toList)
  (block.find? (fun l => startsWith l hashPrefix)).map (fun l => l.drop hashPrefix.length)

theorem stripPrefix_eq (l p : Str) :
    stripPrefix l p = if startsWith l p then some (l.drop p.length) else none := by
  induction p generalizing l with
  | nil => simp [stripPrefix, startsWith]
  | cons q ps ih =>
    cases l with
    | nil => simp [stripPrefix, startsWith]
    | cons c cs =>
      simp only [stripPrefix, startsWith]
      by_cases h : c = q
      · subst h; simp [ih]
      · simp [h]

theorem scan_eq (ls : List Str) :
    scan ls = ((ls.takeWhile (fun l => startsWith l "//".toList)).find? (fun l => startsWith l hashPrefix)).map
      (fun l => l.drop hashPrefix.length) := by
  induction ls with
  | nil => rfl
  | cons l ls ih =>
    simp only [scan]
    by_cases h : startsWith l "//".toList = true
    · simp only [h, Bool.not_true, Bool.false_eq_true, if_false, List.takeWhile_cons, if_true, List.find?_cons]
      rw [stripPrefix_eq]
      by_cases h2 : startsWith l hashPrefix = true
      · simp [h2]
      · simp only [h2]; simp only [Bool.false_eq_true, if_false]; exact ih
    · have h' : startsWith l "//".toList = false := by simpa using h
      simp only [h', Bool.not_false, if_true, List.takeWhile_cons, Bool.false_eq_true, if_false, List.find?_nil,
        Option.map_none]

/-- **C15 (i)** -/
theorem C15_spec (text : Str) : getGrammarHash text = specHash text := by
  unfold getGrammarHash specHash
  exact scan_eq _

/-- non-vacuity, and the repeated-prefix case that `trim_start_matches` got wrong -/
example : getGrammarHash "// a\n// @sha256 // @sha256 abc\n// @sha256 x\ncode".toList = some "// @sha256 abc".toList := by
  decide
example : getGrammarHash "// a\n\n// @sha256 abc".toList = none := by decide

end KikiVerif.C15

#print axioms KikiVerif.C15.C15_spec
