/-
C08 — source text is tokenised exactly per the documented lexical rules.
`Spec/Lex.lean` is the statement of the rules (`scan`); the correspondence run
compares the implementation with `scan` on every case, and the model with both.
`C08_tokenize_eq_spec` proves, for every source text, that the character state
machine of `tokenize.rs` (model `Tokenize.tokenize`, index bookkeeping and
source slices included) computes exactly `scan` — tokens with kinds, payloads
and byte positions, or the same `Lex(index, char?)`.
-/
import KikiVerif.Spec.Lex
import KikiVerif.Proofs.Tokenize
import KikiVerif.Proofs.Positions

namespace KikiVerif.C08
open KikiVerif KikiVerif.Spec KikiVerif.Text

/-- the specification scanner returns tokens or a lexical error, nothing else -/
theorem C08_scan_total : ∀ (n : Nat) (cs : Str) (i : Nat), cs.length ≤ n →
    (∃ ts, scanFrom cs i = .ok ts) ∨ (∃ j c, scanFrom cs i = .err (.lex j c)) := by
  intro n
  induction n with
  | zero =>
    intro cs i h
    have : cs = [] := by cases cs <;> simp_all
    subst this
    exact Or.inl ⟨[], scanFrom_done rfl⟩
  | succ n ih =>
    intro cs i h
    cases hn : next cs i with
    | done => exact Or.inl ⟨[], scanFrom_done hn⟩
    | bad j c => exact Or.inr ⟨j, c, scanFrom_bad hn⟩
    | skip k =>
      have hne : cs ≠ [] := next_ne_nil (by rw [hn]; simp)
      have hlt := drop_succ_length_lt cs k hne
      rw [scanFrom_skip hn]
      exact ih _ _ (by omega)
    | emit t k =>
      have hne : cs ≠ [] := next_ne_nil (by rw [hn]; simp)
      have hlt := drop_succ_length_lt cs k hne
      rw [scanFrom_emit hn]
      rcases ih (cs.drop (k + 1)) (i + blen (cs.take (k + 1))) (by omega) with ⟨ts, h1⟩ | ⟨j, c, h1⟩
      · exact Or.inl ⟨t :: ts, by rw [h1]⟩
      · exact Or.inr ⟨j, c, by rw [h1]⟩

theorem next_colon_colon (r : Str) (i : Nat) : next (':' :: ':' :: r) i = .emit (.dcolon i) 1 := by
  unfold next
  simp only [show isWhitespace ':' = false from by decide, show (':' : Char) ≠ '/' from by decide,
    show isIdentStart ':' = false from by decide, show (':' : Char) ≠ '$' from by decide]
  simp

/-- maximal munch: two adjacent colons are always one `::` token -/
theorem C08_double_colon (r : Str) (i : Nat) :
    scanFrom (':' :: ':' :: r) i =
      match scanFrom r (i + 2) with
      | .ok ts => .ok (.dcolon i :: ts)
      | e => e := by
  rw [scanFrom_emit (next_colon_colon r i)]
  simp [blen, clen]
  rfl

/-- **C08**: for every source text the tokenizer returns exactly what the documented rules prescribe -/
theorem C08_tokenize_eq_spec (src : Str) : Tokenize.tokenize src = scan src :=
  Tokenize.tokenize_eq_scan src

/-- hence the tokenizer never panics (none of its three slice sites can fail): it returns tokens or `Lex` -/
theorem C08_tokenize_total (src : Str) :
    (∃ ts, Tokenize.tokenize src = .ok ts) ∨ (∃ j c, Tokenize.tokenize src = .err (.lex j c)) := by
  rw [C08_tokenize_eq_spec]
  exact C08_scan_total src.length src 0 (Nat.le_refl _)

/-- **C08, byte positions**: every token `tokenize` returns sits in the source exactly where it says — slicing the
source from the token's start offset over the byte length of its text gives back its text (for a terminal
identifier the text is `$` followed by the name and the start is `dollarless_position - 1 ≥ 0`) -/
theorem C08_positions (src : Str) (ts : List Token) (h : Tokenize.tokenize src = .ok ts) :
    ∀ t ∈ ts, Text.sliceBytes src (Spec.tokStart t) (Spec.tokStart t + Text.blen (Spec.tokText t)) = some (Spec.tokText t) ∧
      Spec.posOk t :=
  Spec.tokenize_positions src ts h

end KikiVerif.C08

#print axioms KikiVerif.C08.C08_scan_total
#print axioms KikiVerif.C08.C08_double_colon
#print axioms KikiVerif.C08.C08_tokenize_eq_spec
#print axioms KikiVerif.C08.C08_tokenize_total
#print axioms KikiVerif.C08.C08_positions
