/-
C02 — an accepted input yields its faithful derivation tree with original payloads.

`C02_tree`: whatever the driver returns with `Ok` is a well-formed derivation
tree whose yield is the consumed input — the *tokens themselves*, payloads
included (payloads are an opaque type parameter, so the driver cannot alter
them), each exactly once and in order.
`C02_that_tree`: for a sentence given by a derivation tree `t`, the driver
returns exactly `t`; together with determinism of `step` this is uniqueness.
The user-visible value is `userView` of that tree (`Driver.debugTree` renders
it); the correspondence compares it with the compiled parser's `Debug` output.
-/
import KikiVerif.LR.Snd
import KikiVerif.Proofs.Run
import KikiVerif.Proofs.Valid
import KikiVerif.Proofs.Universal
import KikiVerif.Proofs.Encode

namespace KikiVerif.C02
open KikiVerif.LR

variable {T N P : Type}

theorem C02_tree {g : Grammar T N} {A : Auto T N} (hs : Sound g A) (c : Cfg T P)
    (u : List (Tok T P)) (h : Stk g A c.states c.nodes u) (t : Tree T P) (hok : step g A c = .ok t) :
    WF g t (.n g.start) ∧ t.yield = u ∧ c.rest = [] := by
  have := step_inv hs c u h
  rw [hok] at this
  exact ⟨this.1, this.2.1.symm, this.2.2⟩

theorem C02_that_tree {g : Grammar T N} {A : Auto T N} (hc : Complete (P := P) g A)
    (t : Tree T P) (hwf : WF g t (.n g.start)) :
    ∃ c, Steps g A ⟨[A.start], [], t.yield⟩ c ∧ step g A c = .ok t :=
  run_complete hc t hwf

/-- runs are deterministic: two runs from one configuration to accepting steps return the same tree -/
theorem steps_ok_unique {g : Grammar T N} {A : Auto T N} {c c1 c2 : Cfg T P} {t1 t2 : Tree T P}
    (h1 : Steps g A c c1) (ho1 : step g A c1 = .ok t1) (h2 : Steps g A c c2) (ho2 : step g A c2 = .ok t2) :
    t1 = t2 := by
  induction h1 with
  | refl c =>
    cases h2 with
    | refl => rw [ho1] at ho2; injection ho2
    | head hs _ => rw [ho1] at hs; cases hs
  | head hs _ ih =>
    cases h2 with
    | refl => rw [ho2] at hs; cases hs
    | head hs' h2' =>
      rw [hs] at hs'; injection hs' with e; subst e
      exact ih ho1 h2'

/-- **unambiguity**: two derivation trees of the same token sequence are equal -/
theorem C02_unique {g : Grammar T N} {A : Auto T N} (hc : Complete (P := P) g A)
    (t1 t2 : Tree T P) (h1 : WF g t1 (.n g.start)) (h2 : WF g t2 (.n g.start)) (hy : t1.yield = t2.yield) :
    t1 = t2 := by
  obtain ⟨c1, s1, o1⟩ := run_complete hc t1 h1
  obtain ⟨c2, s2, o2⟩ := run_complete hc t2 h2
  rw [hy] at s1
  exact steps_ok_unique s1 o1 s2 o2

open KikiVerif.Valid in
/-- **C02 for a validated automaton**: an accepted run returns a well-formed derivation tree whose leaves are
the input tokens themselves (payloads included), each exactly once and in order; and it is the only
derivation tree of that input -/
theorem C02_faithful {P : Type} {g : Grammar Nat Nat} {nN : Nat} {C : Cert} (hv : validB g nN C = true)
    (w : List (Tok Nat P)) (fuel : Nat) (t : Tree Nat P) (cf : Cfg Nat P)
    (hrun : runCfg g (mkAuto C) fuel ⟨[(mkAuto C).start], [], w⟩ = some (.ok t, cf)) :
    WF g t (.n g.start) ∧ t.yield = w ∧ ∀ t' : Tree Nat P, WF g t' (.n g.start) → t'.yield = w → t' = t := by
  obtain ⟨hs, hc⟩ := validB_sound (P := P) hv
  obtain ⟨hw, hy⟩ := (run_sound hs fuel _ [] .base _ _ hrun).2.2 t rfl
  have hy' : t.yield = w := by simpa using hy
  exact ⟨hw, hy', fun t' hw' hy'' => C02_unique hc t' t hw' hw (by rw [hy', hy''])⟩

/-- **C02 for every validated file** (generator theorem, `Proofs/Universal`): whenever the generator stages
succeed, whatever the emitted parse loop returns with `Ok` is a derivation tree of the (coded) grammar whose
leaves are exactly the input tokens, payloads included, in order; and since every generated automaton is
`Complete`, that tree is the only derivation tree of the input (a grammar for which a table is emitted is
unambiguous) -/
theorem C02_every_grammar {P : Type} (vf : VFile.File) (enc : Encode.Enc) (m : Machine.Machine) (t : Table.Table)
    (fuel : Nat) (he : Encode.encode vf = some enc) (hm : Machine.machineOf enc.ctx fuel = some (some m))
    (ht : Table.machineToTable enc.ctx m = .ok t)
    (w : List (Tok Nat P)) (fuel' : Nat) (tr : Tree Nat P) (cf : Cfg Nat P)
    (hrun : runCfg enc.ctx.g (Driver.autoOfTable t) fuel' ⟨[(Driver.autoOfTable t).start], [], w⟩ = some (.ok tr, cf)) :
    WF enc.ctx.g tr (.n enc.ctx.g.start) ∧ tr.yield = w ∧
      ∀ tr2 : Tree Nat P, WF enc.ctx.g tr2 (.n enc.ctx.g.start) → tr2.yield = w → tr2 = tr := by
  have ok := Encode.encode_ok he
  obtain ⟨h1, h2⟩ := Universal.emitted_parser_tree ok hm ht w fuel' tr cf hrun
  refine ⟨h1, h2, ?_⟩
  intro tr2 hw2 hy2
  obtain ⟨fm, hk, _⟩ := Universal.generator_checked ok hm ht
  exact C02_unique (Valid.complete_of_checked (P := P) hk) tr2 tr hw2 h1 (by rw [hy2, h2])

end KikiVerif.C02

#print axioms KikiVerif.C02.C02_every_grammar
#print axioms KikiVerif.C02.C02_tree
#print axioms KikiVerif.C02.C02_that_tree
#print axioms KikiVerif.C02.C02_unique
#print axioms KikiVerif.C02.C02_faithful
