/-
C09 — files are accepted exactly per the Kiki grammar; parse errors are exact.

The data (`Generated/ParserRs.lean`, `Generated/ParserKiki.lean`) is regenerated
from `parser.rs` / `parser.kiki` on every run; the theorems below are kernel
evaluations (`decide`) over it, so they are re-proved against the current
sources.  (first layer: the numbering assumptions of the front-end model)
-/
import KikiVerif.Model.FrontParse
import KikiVerif.Proofs.Valid
import KikiVerif.Proofs.Run
import KikiVerif.Generated.ParserCert
import KikiVerif.Proofs.CstToAst
import KikiVerif.Proofs.ParseErr
import KikiVerif.LR.Early
import KikiVerif.Proofs.HaltFront

namespace KikiVerif.C09
open KikiVerif KikiVerif.FrontParse KikiVerif.Generated KikiVerif.LR

/-- the token kinds of the model are the `QuasiterminalKind` variants of `parser.rs`, in order,
and the terminals `parser.kiki` declares, in order -/
theorem C09_kinds : kindNames = ParserRs.terminalNames ∧ ParserKiki.terminals.map (·.1) = ParserRs.terminalNames := by
  decide

/-- the nonterminal kinds of `parser.rs` are the declarations of `parser.kiki`, in order -/
theorem C09_nonterminals :
    (ParserKiki.decls.map fun | .struct n _ => n | .enum n _ => n) = ParserRs.nonterminalNames := by
  decide

def declCtorNames : List String :=
  ParserKiki.decls.flatMap fun
    | .struct n _ => [n]
    | .enum n vs => vs.map fun v => n ++ "::" ++ v.1

/-- rule `i` of the tables builds the constructor the model's `cstToAst` assumes for `i`, and that
is the `i`-th struct / enum variant of `parser.kiki` -/
theorem C09_rule_numbering :
    ruleCtorNames = declCtorNames ∧ ruleCtorNames = ParserRs.reduceArms.map (·.ctor) := by
  decide

/-- every reduce arm pops exactly the right-hand side of its rule and returns its left-hand side -/
theorem C09_reduce_arms :
    kikiRules.isSome = true ∧
    armRules.map (fun r => (r.lhs, r.rhs.length)) = kikiG.rules.map (fun r => (r.lhs, r.rhs.length)) ∧
    (ParserRs.reduceArms.map fun a => a.pops.length) = ParserRs.reduceArms.map (·.truncate) := by
  decide

/-! ### the extracted tables are a valid LR automaton for the Kiki grammar -/

/-- the tables of `parser.rs` (extracted) with candidate item sets and FIRST table (untrusted, produced by
running the model's LALR construction on `parser.kiki`; `tools/mk_cert.py`) -/
def parserCert : Valid.Cert :=
  { frontCert with states := ParserCert.states, first := ParserCert.first }

set_option maxRecDepth 1000000 in
/-- **kernel-checked**: the ACTION / GOTO tables checked into `parser.rs` satisfy every local LR validity
condition for the grammar declared in `parser.kiki` -/
theorem C09_table_valid : Valid.validB kikiG ParserRs.nonterminalNames.length parserCert = true := by
  decide +kernel

theorem C09_sound_complete {P : Type} :
    Sound kikiG (Valid.mkAuto parserCert) ∧ Complete (P := P) kikiG (Valid.mkAuto parserCert) :=
  Valid.validB_sound C09_table_valid

theorem arm_rules_agree (r : Nat) :
    (armG.rules[r]?).map (fun (x : Rule Nat Nat) => (x.lhs, x.rhs.length)) =
      (kikiG.rules[r]?).map (fun (x : Rule Nat Nat) => (x.lhs, x.rhs.length)) := by
  have h := C09_reduce_arms.2.1
  have e1 : (armG.rules[r]?).map (fun (x : Rule Nat Nat) => (x.lhs, x.rhs.length)) =
      (armRules.map (fun r => (r.lhs, r.rhs.length)))[r]? := by
    rw [List.getElem?_map]; rfl
  have e2 : (kikiG.rules[r]?).map (fun (x : Rule Nat Nat) => (x.lhs, x.rhs.length)) =
      (kikiG.rules.map (fun r => (r.lhs, r.rhs.length)))[r]? := by
    rw [List.getElem?_map]
  rw [e1, e2, h]

/-- the driver of `parser.rs` over its own reduce arms behaves as the LR driver for the Kiki grammar
over the validated automaton -/
theorem front_step_eq (c : Cfg Nat Token) :
    step armG frontAuto c = step kikiG (Valid.mkAuto parserCert) c := by
  rw [step_congr_grammar arm_rules_agree c]
  exact step_congr_auto rfl rfl c

theorem front_run_eq (fuel : Nat) (c : Cfg Nat Token) :
    runCfg armG frontAuto fuel c = runCfg kikiG (Valid.mkAuto parserCert) fuel c :=
  runCfg_congr front_step_eq fuel c

/-- **C09, acceptance**: for every token list, the front-end parser never panics; whenever it returns, it
returns a CST iff the token sequence is a sentence of the Kiki grammar of `parser.kiki`, and the CST is a
derivation tree whose leaves are exactly the input tokens in order -/
theorem C09_parse_correct (toks : List Token) (fuel : Nat) (out : ParseOut) (h : parse toks fuel = some out) :
    (match out with | .panic => False | _ => True) ∧
    (∀ t, (match out with | .ok t' => t' = t | _ => False) →
        WF kikiG t (.n kikiG.start) ∧ t.yield = toks.map mkTok) ∧
    ((∃ t, match out with | .ok t' => t' = t | _ => False) ↔
        ∃ t : Tree Nat Token, WF kikiG t (.n kikiG.start) ∧ t.yield = toks.map mkTok) := by
  unfold parse at h
  rw [front_run_eq] at h
  cases hr : runCfg kikiG (Valid.mkAuto parserCert) fuel ⟨[frontAuto.start], [], toks.map mkTok⟩ with
  | none => rw [hr] at h; cases h
  | some rc =>
    obtain ⟨r, cf⟩ := rc
    rw [hr] at h
    simp only [Option.map_some, Option.some.injEq] at h
    have hstart : frontAuto.start = (Valid.mkAuto parserCert).start := rfl
    rw [hstart] at hr
    obtain ⟨hs, hc⟩ := C09_sound_complete (P := Token)
    obtain ⟨h1, h2, h3⟩ := run_sound hs fuel _ [] .base _ _ hr
    have hiff := run_ok_iff hs hc (toks.map mkTok) fuel r cf hr
    cases r with
    | panic => exact absurd rfl h1
    | cont c' => exact absurd rfl (h2 c')
    | err =>
      subst h
      refine ⟨trivial, fun t ht => by simp at ht, ?_⟩
      constructor
      · rintro ⟨t, ht⟩; simp at ht
      · intro hex
        obtain ⟨t, ht⟩ := hiff.mpr hex
        cases ht
    | ok t =>
      subst h
      refine ⟨trivial, fun t' ht' => ?_, ?_⟩
      · simp only at ht'
        subst ht'
        have := h3 t rfl
        simpa using this
      · constructor
        · intro _; exact hiff.mp ⟨t, rfl⟩
        · intro _; exact ⟨t, rfl⟩

/-- **C09, flattening**: whenever the front-end parser accepts, `cst_to_ast` succeeds on the CST it
returned, and unparsing the resulting AST (`Spec/Unparse.lean`: the concrete syntax of `.kiki` files) gives
back exactly the input tokens without their positions, in order: no item, attribute, field, variant, path
segment or type argument is dropped, duplicated or reordered -/
theorem C09_flatten (toks : List Token) (fuel : Nat) (t : CTree) (h : parse toks fuel = some (.ok t)) :
    ∃ ast, cstToAst t = some ast ∧ Spec.unFile ast = toks.map Spec.erase := by
  obtain ⟨_, h2, _⟩ := C09_parse_correct toks fuel (.ok t) h
  obtain ⟨hw, hy⟩ := h2 t rfl
  have hg : Good t := by
    intro l hl
    rw [hy] at hl
    obtain ⟨tok, _, rfl⟩ := List.mem_map.mp hl
    rfl
  obtain ⟨ast, h1, h2⟩ := cstToAst_ok hw hg
  refine ⟨ast, h1, ?_⟩
  rw [h2]
  unfold EY
  rw [hy, List.map_map]
  rfl

/-- **C09, parse errors are exact (span and text)**: when the front-end parser stops at a token of
`tokenize src`, that token exists (`index < tokens.len()`), and the `KikiErr::Parse` built from it carries the
token's own start offset, its own text — the slice of the source at that offset — and the matching end offset;
the conversion cannot panic (no `Token::start` underflow, no bad slice).  At end of input the error is
`Parse(len, "", len)`.  (That the token is the *first offending* one is `C03_front_end_first_offending`.) -/
theorem C09_error_span (src : Str) (toks : List Token) (htok : Tokenize.tokenize src = .ok toks) (fuel : Nat)
    (idx : Option Nat) (h : parse toks fuel = some (.unexpected idx)) :
    (∀ k, idx = some k → k < toks.length) ∧
    (∀ t, idx.bind (toks[·]?) = some t →
      unexpectedToErr src (some t) =
        .ok (.parse (Spec.tokStart t) (Spec.tokText t) (Spec.tokStart t + Text.blen (Spec.tokText t)))) ∧
    unexpectedToErr src none = .ok (.parse (Text.blen src) [] (Text.blen src)) := by
  refine ⟨?_, ?_, rfl⟩
  · intro k hk
    subst hk
    unfold parse at h
    cases hr : runCfg armG frontAuto fuel ⟨[frontAuto.start], [], toks.map mkTok⟩ with
    | none => rw [hr] at h; cases h
    | some rc =>
      obtain ⟨r, cf⟩ := rc
      rw [hr] at h
      simp only [Option.map_some, Option.some.injEq] at h
      obtain ⟨hsteps, _⟩ := steps_of_runCfg fuel _ _ _ hr
      have hle := steps_rest_le hsteps
      simp only [List.length_map] at hle
      cases r with
      | ok t => cases h
      | panic => cases h
      | cont c' => cases h
      | err =>
        simp only [ParseOut.unexpected.injEq] at h
        split at h
        · cases h
        · rename_i hne
          simp only [Option.some.injEq] at h
          have : cf.rest ≠ [] := by intro e; rw [e] at hne; exact hne rfl
          have : 0 < cf.rest.length := List.length_pos_iff.mpr this
          omega
  · intro t ht
    cases idx with
    | none => cases ht
    | some k =>
      simp only [Option.bind_some] at ht
      exact unexpectedToErr_token src toks htok t (List.mem_of_getElem? ht)

/-- **C09, the front-end parser decides every token sequence**: `parser::parse` stops on every token list —
sentence or not — within `HaltFront.parseBound` steps (linear in the number of tokens; the potential that
shows it is searched and checked inside the kernel on the tables extracted from `parser.rs` on this run), and the
answer it stops with is a CST iff the token sequence is a sentence of the Kiki grammar -/
theorem C09_parse_decides (toks : List Token) (k : Nat) :
    ∃ out, parse toks (HaltFront.parseBound toks.length + k) = some out ∧
      (∀ t, out = .ok t → WF kikiG t (.n kikiG.start) ∧ t.yield = toks.map mkTok) ∧
      ((∃ idx, out = .unexpected idx) ↔
        ¬ ∃ t : Tree Nat Token, WF kikiG t (.n kikiG.start) ∧ t.yield = toks.map mkTok) := by
  obtain ⟨out, ho⟩ := HaltFront.front_parse_halts toks k
  have hc := C09_parse_correct toks _ out ho
  refine ⟨out, ho, ?_, ?_⟩
  · intro t e
    subst e
    exact hc.2.1 t rfl
  · cases out with
    | panic => exact absurd hc.1 (by simp)
    | ok t =>
      constructor
      · rintro ⟨idx, e⟩; cases e
      · intro hn; exact absurd (hc.2.2.mp ⟨t, rfl⟩) hn
    | unexpected idx =>
      constructor
      · intro _ hex
        obtain ⟨t, ht⟩ := hc.2.2.mpr hex
        exact ht
      · intro _; exact ⟨idx, rfl⟩

end KikiVerif.C09

#print axioms KikiVerif.C09.C09_error_span
#print axioms KikiVerif.C09.C09_kinds
#print axioms KikiVerif.C09.C09_nonterminals
#print axioms KikiVerif.C09.C09_rule_numbering
#print axioms KikiVerif.C09.C09_reduce_arms
#print axioms KikiVerif.C09.C09_table_valid
#print axioms KikiVerif.C09.C09_parse_correct
#print axioms KikiVerif.C09.C09_flatten
#print axioms KikiVerif.C09.C09_parse_decides
