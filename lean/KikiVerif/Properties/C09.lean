/-
C09 — files are accepted exactly per the Kiki grammar; parse errors are exact.

The data (`Generated/ParserRs.lean`, `Generated/ParserKiki.lean`) is regenerated
from `parser.rs` / `parser.kiki` on every run; the theorems below are kernel
evaluations (`decide`) over it, so they are re-proved against the current
sources.  (first layer: the numbering assumptions of the front-end model)
-/
import KikiVerif.Model.FrontParse

namespace KikiVerif.C09
open KikiVerif KikiVerif.FrontParse KikiVerif.Generated

/-- the token kinds of the model are the `QuasiterminalKind` variants of `parser.rs`, in order,
and the terminals `parser.kiki` declares, in order -/
theorem C09_kinds : kindNames = ParserRs.terminalNames ∧ ParserKiki.terminals.map (·.1) = ParserRs.terminalNames := by
  decide

/-- the nonterminal kinds of `parser.rs` are the declarations of `parser.kiki`, in order -/
theorem C09_nonterminals :
    (ParserKiki.decls.map fun | .struct n _ => n | .enum n _ => n) = ParserRs.nonterminalNames := by
  decide

def declCtorNames : List String :=
  ParserKiki.decls.flatMap fun
    | .struct n _ => [n]
    | .enum n vs => vs.map fun v => n ++ "::" ++ v.1

/-- rule `i` of the tables builds the constructor the model's `cstToAst` assumes for `i`, and that
is the `i`-th struct / enum variant of `parser.kiki` -/
theorem C09_rule_numbering :
    ruleCtorNames = declCtorNames ∧ ruleCtorNames = ParserRs.reduceArms.map (·.ctor) := by
  decide

/-- every reduce arm pops exactly the right-hand side of its rule and returns its left-hand side -/
theorem C09_reduce_arms :
    kikiRules.isSome = true ∧
    armRules.map (fun r => (r.lhs, r.rhs.length)) = kikiG.rules.map (fun r => (r.lhs, r.rhs.length)) ∧
    (ParserRs.reduceArms.map fun a => a.pops.length) = ParserRs.reduceArms.map (·.truncate) := by
  decide

end KikiVerif.C09

#print axioms KikiVerif.C09.C09_kinds
#print axioms KikiVerif.C09.C09_nonterminals
#print axioms KikiVerif.C09.C09_rule_numbering
#print axioms KikiVerif.C09.C09_reduce_arms
