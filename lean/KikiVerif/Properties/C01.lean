/-
C01 — the generated parser accepts exactly the language of the declared grammar.

Layering (DESIGN.md §6): the emitted `parse` is `LR.step` iterated over the
emitted tables (`Driver.autoOfTable`).  For *any* automaton satisfying the
local validity conditions `Sound` / `Complete`:
  * `C01_no_panic_and_sound`: a step from a consistent configuration never
    panics, keeps the configuration consistent, and `Ok t` means `t` is a
    derivation tree of the whole input from the start symbol;
  * `C01_complete`: every sentence is accepted (hence termination on sentences);
  * `C01_payload_irrelevant`: acceptance depends on token kinds only.
That the generator's automaton satisfies `Sound ∧ Complete` is checked per
grammar by the kernel-evaluable validator (`Proofs/Valid`, theorem
`validB_sound`), which the correspondence run applies to the *implementation's*
machine and table for every generated grammar.
-/
import KikiVerif.LR.Snd
import KikiVerif.Proofs.Run
import KikiVerif.Proofs.Valid
import KikiVerif.Proofs.Universal
import KikiVerif.Proofs.Encode

namespace KikiVerif.C01
open KikiVerif.LR

variable {T N P : Type}

/-- no panic; consistency is preserved; `Ok` is sound -/
theorem C01_no_panic_and_sound {g : Grammar T N} {A : Auto T N} (hs : Sound g A) (c : Cfg T P)
    (u : List (Tok T P)) (h : Stk g A c.states c.nodes u) :
    match step g A c with
    | .panic => False
    | .cont c' => ∃ u', Stk g A c'.states c'.nodes u' ∧ u' ++ c'.rest = u ++ c.rest
    | .ok t => WF g t (.n g.start) ∧ u = t.yield ∧ c.rest = []
    | .err => True :=
  step_inv hs c u h

/-- every sentence is accepted, and the value returned is its derivation tree -/
theorem C01_complete {g : Grammar T N} {A : Auto T N} (hc : Complete (P := P) g A)
    (t : Tree T P) (hwf : WF g t (.n g.start)) :
    ∃ c, Steps g A ⟨[A.start], [], t.yield⟩ c ∧ step g A c = .ok t :=
  run_complete hc t hwf

/-! ### whole runs, for any automaton the validator accepts -/

open KikiVerif.Valid in
/-- **C01 for a validated automaton** (all token sequences, any length, any payload type): the loop of the
emitted `parse` never panics, and whenever it ends it returns `Ok` iff the token sequence is derivable from
the start symbol.  `validB` is the executable validator the correspondence run applies to the machine and
table the implementation built for each generated grammar (and the kernel to `parser.rs`, C09). -/
theorem C01_accepts_iff {P : Type} {g : Grammar Nat Nat} {nN : Nat} {C : Cert} (hv : validB g nN C = true)
    (w : List (Tok Nat P)) (fuel : Nat) (r : StepRes Nat P) (cf : Cfg Nat P)
    (hrun : runCfg g (mkAuto C) fuel ⟨[(mkAuto C).start], [], w⟩ = some (r, cf)) :
    r ≠ .panic ∧ ((∃ t, r = .ok t) ↔ ∃ t : Tree Nat P, WF g t (.n g.start) ∧ t.yield = w) := by
  obtain ⟨hs, hc⟩ := validB_sound (P := P) hv
  exact ⟨(run_sound hs fuel _ [] .base _ _ hrun).1, run_ok_iff hs hc w fuel r cf hrun⟩

open KikiVerif.Valid in
/-- termination on every sentence (termination on non-sentences is the residue, see DESIGN.md §6.1) -/
theorem C01_sentences_terminate {P : Type} {g : Grammar Nat Nat} {nN : Nat} {C : Cert} (hv : validB g nN C = true)
    (t : Tree Nat P) (hwf : WF g t (.n g.start)) :
    ∃ fuel cf, runCfg g (mkAuto C) fuel ⟨[(mkAuto C).start], [], t.yield⟩ = some (.ok t, cf) :=
  run_accepts (validB_sound (P := P) hv).2 t hwf

/-! ### every grammar: the generator itself -/

/-- **C01 for every validated file** (no per-grammar validation involved): whenever the three generator stages
succeed — `Encode.encode` (names ↦ rank codes), `validated_ast_to_machine` (FIRST fixpoint, closures, worklist
with LALR merging, renumbering) and `machine_to_table` — the emitted parse loop over the emitted tables never
panics on any token sequence, and whenever it ends it returns `Ok` iff the sequence is derivable from the start
symbol of the (coded) grammar.  Proof: `Proofs/{First,Closure,Cores,Build,Normalize,Generator,TableCells,Assemble}`
establish that machine and table pass every check of the validator (`checked_of_generator`). -/
theorem C01_every_grammar {P : Type} (vf : VFile.File) (enc : Encode.Enc) (m : Machine.Machine) (t : Table.Table)
    (fuel : Nat) (he : Encode.encode vf = some enc) (hm : Machine.machineOf enc.ctx fuel = some (some m))
    (ht : Table.machineToTable enc.ctx m = .ok t)
    (w : List (Tok Nat P)) (fuel' : Nat) (r : StepRes Nat P) (cf : Cfg Nat P)
    (hrun : runCfg enc.ctx.g (Driver.autoOfTable t) fuel' ⟨[(Driver.autoOfTable t).start], [], w⟩ = some (r, cf)) :
    r ≠ .panic ∧ ((∃ tr, r = .ok tr) ↔ ∃ tr : Tree Nat P, WF enc.ctx.g tr (.n enc.ctx.g.start) ∧ tr.yield = w) :=
  Universal.emitted_parser_correct (Encode.encode_ok he) hm ht w fuel' r cf hrun

/-- the generator's output always passes the validator that the correspondence run applies per grammar -/
theorem C01_generator_passes_validator (vf : VFile.File) (enc : Encode.Enc) (m : Machine.Machine) (t : Table.Table)
    (fuel : Nat) (he : Encode.encode vf = some enc) (hm : Machine.machineOf enc.ctx fuel = some (some m))
    (ht : Table.machineToTable enc.ctx m = .ok t) :
    ∃ fm, Valid.Checked enc.ctx.g enc.ctx.nN (Assemble.certOf enc.ctx fm m t) :=
  let ⟨fm, hk, _⟩ := Universal.generator_checked (Encode.encode_ok he) hm ht
  ⟨fm, hk⟩

/-- the grammar the generator theorem speaks about *is* the declared grammar: `Encode.encode` replaces every name
by its rank in the strictly ascending list of declared terminal (resp. nonterminal) names, rule by rule, symbol
by symbol, and the start symbol likewise (an injective renaming) -/
theorem C01_coding_faithful {f : VFile.File} {enc : Encode.Enc} (h : Encode.encode f = some enc) :
    Oset.Sorted enc.tsorted ∧ Oset.Sorted enc.nsorted ∧
    (∀ x, x ∈ enc.tsorted ↔ x ∈ f.tenum.variants.map (·.name)) ∧
    (∀ x, x ∈ enc.nsorted ↔ x ∈ f.nonterminals.map (·.name)) ∧
    enc.ctx.nT = enc.tsorted.length ∧ enc.ctx.nN = enc.nsorted.length ∧
    enc.nsorted[enc.ctx.g.start]? = some f.start ∧
    enc.ctx.g.rules.length = f.rules.length ∧
    ∀ (j : Nat) (r : VFile.Rule), f.rules[j]? = some r → ∃ cr : Rule Nat Nat, enc.ctx.g.rules[j]? = some cr ∧
      enc.nsorted[cr.lhs]? = some r.ctor.typeName ∧ cr.rhs.length = r.fieldset.syms.length ∧
      ∀ (k : Nat) (s : Ast.SymId), r.fieldset.syms[k]? = some s →
        ∃ X, cr.rhs[k]? = some X ∧ Encode.decodesTo enc.tsorted enc.nsorted s X :=
  Encode.encode_faithful h

/-- **termination on every token sequence, per certified table**.  `Halt.certified` is an executable check
(`LR/Halt.lean`): it searches a potential `φ` per (lookahead, state) and checks that every reduction the table
allows lowers `cc·(stack height) + φ`; the correspondence run evaluates it on the table of every accepted
grammar of its pools (mode `halts` of the model driver).  Where it holds, the emitted parse loop stops on every
token sequence — sentence or not — within `Halt.stepBound` steps (linear in the length), never panics, and
answers `Ok` iff the sequence is derivable: the emitted parser *decides* the language. -/
theorem C01_certified_decides {P : Type} (vf : VFile.File) (enc : Encode.Enc) (m : Machine.Machine) (t : Table.Table)
    (fuel : Nat) (he : Encode.encode vf = some enc) (hm : Machine.machineOf enc.ctx fuel = some (some m))
    (ht : Table.machineToTable enc.ctx m = .ok t) (fm : List Machine.FirstSet)
    (hcert : Halt.certified (Assemble.certOf enc.ctx fm m t) enc.ctx.g = true) (w : List (Tok Nat P)) :
    ∃ r cf, runCfg enc.ctx.g (Driver.autoOfTable t) (Halt.stepBound (Assemble.certOf enc.ctx fm m t) enc.ctx.g w.length)
        ⟨[(Driver.autoOfTable t).start], [], w⟩ = some (r, cf) ∧
      r ≠ .panic ∧ ((∃ tr, r = .ok tr) ↔ ∃ tr : Tree Nat P, WF enc.ctx.g tr (.n enc.ctx.g.start) ∧ tr.yield = w) :=
  Universal.emitted_parser_decides (Encode.encode_ok he) hm ht fm hcert w

/-- the generic statement behind it: any driver over any table (`Valid.Cert`) with a checked potential stops on
every input within `(|w|+1)·(cc + max φ + 1)` steps -/
theorem C01_potential_halts {P : Type} (C : Valid.Cert) (g : Grammar Nat Nat) (cc : Nat) (φ : Halt.Pot)
    (h : Halt.haltsB C g cc φ = true) (w : List (Tok Nat P)) :
    ∃ r, runCfg g (Valid.mkAuto C) ((w.length + 1) * Halt.K cc φ) ⟨[C.start], [], w⟩ = some r :=
  Halt.run_halts h w

/-- the same with the sharper certificate `Halt.certifiedF` — for every lookahead and every transition `v → s`
of the table, the run of reductions on the two-element stack `[s, v]` ends (non-reduce action, or a reduction
that pops the floor `v`) within the simulation fuel.  It is exact on the known part of the stack, so it fails
only if some stack the automaton can build makes the driver reduce forever.  Evaluated by the correspondence run
on the table of every accepted grammar (mode `halts`). -/
theorem C01_framed_decides {P : Type} (vf : VFile.File) (enc : Encode.Enc) (m : Machine.Machine) (t : Table.Table)
    (fuel : Nat) (he : Encode.encode vf = some enc) (hm : Machine.machineOf enc.ctx fuel = some (some m))
    (ht : Table.machineToTable enc.ctx m = .ok t) (fm : List Machine.FirstSet)
    (hcert : Halt.certifiedF (Assemble.certOf enc.ctx fm m t) enc.ctx.g = true) (w : List (Tok Nat P)) :
    ∃ fuel' r cf, runCfg enc.ctx.g (Driver.autoOfTable t) fuel' ⟨[(Driver.autoOfTable t).start], [], w⟩ = some (r, cf) ∧
      r ≠ .panic ∧ ((∃ tr, r = .ok tr) ↔ ∃ tr : Tree Nat P, WF enc.ctx.g tr (.n enc.ctx.g.start) ∧ tr.yield = w) :=
  Universal.emitted_parser_decidesF (Encode.encode_ok he) hm ht fm hcert w

/-- the generic statement behind it -/
theorem C01_framed_halts {P : Type} (C : Valid.Cert) (g : Grammar Nat Nat) (F : Nat)
    (h : Halt.haltsF C g F = true) (w : List (Tok Nat P)) :
    ∃ fuel r, runCfg g (Valid.mkAuto C) fuel ⟨[C.start], [], w⟩ = some r :=
  Halt.run_haltsF h w

end KikiVerif.C01

#print axioms KikiVerif.C01.C01_coding_faithful
#print axioms KikiVerif.C01.C01_certified_decides
#print axioms KikiVerif.C01.C01_potential_halts
#print axioms KikiVerif.C01.C01_framed_decides
#print axioms KikiVerif.C01.C01_framed_halts
#print axioms KikiVerif.C01.C01_every_grammar
#print axioms KikiVerif.C01.C01_generator_passes_validator
#print axioms KikiVerif.C01.C01_no_panic_and_sound
#print axioms KikiVerif.C01.C01_complete
#print axioms KikiVerif.C01.C01_accepts_iff
#print axioms KikiVerif.C01.C01_sentences_terminate
