/-
C05 — the emitted module compiles for any legal user naming.
A theorem cannot say "rustc accepts"; what is proved is the hygiene that "for
every naming" needs (first layer: freshness of every chosen internal name).
-/
import KikiVerif.Model.Emit
import KikiVerif.Proofs.EmitTotal

namespace KikiVerif.C05
open KikiVerif.Emit KikiVerif.Text

theorem firstFree_not_used (pref : Str) (used : List Str) :
    ∀ fuel i n, firstFree pref used fuel i = some n → n ∉ used := by
  intro fuel
  induction fuel with
  | zero => intro i n h; simp [firstFree] at h
  | succ k ih =>
    intro i n h
    simp only [firstFree] at h
    split at h
    · exact ih _ _ h
    · rename_i hc
      cases h
      intro hm
      exact hc (List.contains_iff_mem.mpr hm)

/-- `create_unique_identifier` returns a name that was not in use and records it -/
theorem C05_fresh (pref : Str) (used : List Str) (n : Str) (used' : List Str)
    (h : createUniqueIdentifier pref used = some (n, used')) : n ∉ used ∧ used' = used ++ [n] := by
  unfold createUniqueIdentifier at h
  split at h
  · rename_i hc
    cases h
    refine ⟨?_, rfl⟩
    intro hm
    simp at hc
    exact hc hm
  · cases hf : firstFree pref used (used.length + 1) 2 with
    | none => simp [hf] at h
    | some m =>
      simp [hf] at h
      obtain ⟨rfl, rfl⟩ := h
      exact ⟨firstFree_not_used pref used _ _ _ hf, rfl⟩

def Names.toList (n : Names) : List Str :=
  [n.eof, n.quasiterminal, n.quasiterminalKind, n.nonterminalKind, n.state, n.node, n.action, n.ruleKind,
   n.reducePrefix, n.actionTable, n.gotoTable, n.parseParam]

/-- **hygiene of the twelve internal names**: they are pairwise distinct and none of them is an identifier the user
defined (nonterminal, terminal variant, terminal enum) — whatever the user's naming, including names equal to
the generator's preferred ones and their numbered neighbours -/
theorem C05_names_distinct (used0 : List Str) (n : Names) (h : chooseNames used0 = some n) :
    (Names.toList n).Nodup ∧ ∀ x ∈ Names.toList n, x ∉ used0 := by
  unfold chooseNames at h
  simp only [Option.bind_eq_bind, Option.pure_def] at h
  -- peel the twelve calls
  cases h1 : createUniqueIdentifier (L "Eof") used0 with
  | none => simp [h1] at h
  | some r1 =>
  obtain ⟨a1, u1⟩ := r1
  simp only [h1, Option.bind_some] at h
  cases h2 : createUniqueIdentifier (L "Quasiterminal") u1 with
  | none => simp [h2] at h
  | some r2 =>
  obtain ⟨a2, u2⟩ := r2
  simp only [h2, Option.bind_some] at h
  cases h3 : createUniqueIdentifier (L "QuasiterminalKind") u2 with
  | none => simp [h3] at h
  | some r3 =>
  obtain ⟨a3, u3⟩ := r3
  simp only [h3, Option.bind_some] at h
  cases h4 : createUniqueIdentifier (L "NonterminalKind") u3 with
  | none => simp [h4] at h
  | some r4 =>
  obtain ⟨a4, u4⟩ := r4
  simp only [h4, Option.bind_some] at h
  cases h5 : createUniqueIdentifier (L "State") u4 with
  | none => simp [h5] at h
  | some r5 =>
  obtain ⟨a5, u5⟩ := r5
  simp only [h5, Option.bind_some] at h
  cases h6 : createUniqueIdentifier (L "Node") u5 with
  | none => simp [h6] at h
  | some r6 =>
  obtain ⟨a6, u6⟩ := r6
  simp only [h6, Option.bind_some] at h
  cases h7 : createUniqueIdentifier (L "Action") u6 with
  | none => simp [h7] at h
  | some r7 =>
  obtain ⟨a7, u7⟩ := r7
  simp only [h7, Option.bind_some] at h
  cases h8 : createUniqueIdentifier (L "RuleKind") u7 with
  | none => simp [h8] at h
  | some r8 =>
  obtain ⟨a8, u8⟩ := r8
  simp only [h8, Option.bind_some] at h
  cases h9 : createUniqueIdentifier (L "reduce") u8 with
  | none => simp [h9] at h
  | some r9 =>
  obtain ⟨a9, u9⟩ := r9
  simp only [h9, Option.bind_some] at h
  cases h10 : createUniqueIdentifier (L "ACTION_TABLE") u9 with
  | none => simp [h10] at h
  | some r10 =>
  obtain ⟨a10, u10⟩ := r10
  simp only [h10, Option.bind_some] at h
  cases h11 : createUniqueIdentifier (L "GOTO_TABLE") u10 with
  | none => simp [h11] at h
  | some r11 =>
  obtain ⟨a11, u11⟩ := r11
  simp only [h11, Option.bind_some] at h
  cases h12 : createUniqueIdentifier (L "S") u11 with
  | none => simp [h12] at h
  | some r12 =>
  obtain ⟨a12, u12⟩ := r12
  simp only [h12, Option.bind_some, Option.some.injEq] at h
  subst h
  obtain ⟨f1, e1⟩ := C05_fresh _ _ _ _ h1
  obtain ⟨f2, e2⟩ := C05_fresh _ _ _ _ h2
  obtain ⟨f3, e3⟩ := C05_fresh _ _ _ _ h3
  obtain ⟨f4, e4⟩ := C05_fresh _ _ _ _ h4
  obtain ⟨f5, e5⟩ := C05_fresh _ _ _ _ h5
  obtain ⟨f6, e6⟩ := C05_fresh _ _ _ _ h6
  obtain ⟨f7, e7⟩ := C05_fresh _ _ _ _ h7
  obtain ⟨f8, e8⟩ := C05_fresh _ _ _ _ h8
  obtain ⟨f9, e9⟩ := C05_fresh _ _ _ _ h9
  obtain ⟨f10, e10⟩ := C05_fresh _ _ _ _ h10
  obtain ⟨f11, e11⟩ := C05_fresh _ _ _ _ h11
  obtain ⟨f12, e12⟩ := C05_fresh _ _ _ _ h12
  -- each name is outside `used0` and differs from the names chosen before it
  have step : ∀ {v u : List Str} {a : Str}, u = used0 ++ v → (v.Nodup ∧ ∀ x ∈ v, x ∉ used0) → a ∉ u →
      ((v ++ [a]).Nodup ∧ ∀ x ∈ v ++ [a], x ∉ used0) := by
    intro v u a hu hv hf
    subst hu
    have h1 : a ∉ used0 := fun hm => hf (List.mem_append_left _ hm)
    have h2 : a ∉ v := fun hm => hf (List.mem_append_right _ hm)
    constructor
    · rw [List.nodup_append]
      exact ⟨hv.1, by simp, by intro x hx y hy; simp at hy; subst hy; intro e; subst e; exact h2 hx⟩
    · intro x hx
      rcases List.mem_append.mp hx with hx | hx
      · exact hv.2 x hx
      · simp at hx; subst hx; exact h1
  have s0 : (([] : List Str).Nodup ∧ ∀ x ∈ ([] : List Str), x ∉ used0) := ⟨List.nodup_nil, by intro x hx; cases hx⟩
  have s1 := step (v := []) (u := used0) (by simp) s0 f1
  have s2 := step (u := u1) (by rw [e1]; simp) s1 f2
  have s3 := step (u := u2) (by rw [e2, e1]; simp) s2 f3
  have s4 := step (u := u3) (by rw [e3, e2, e1]; simp) s3 f4
  have s5 := step (u := u4) (by rw [e4, e3, e2, e1]; simp) s4 f5
  have s6 := step (u := u5) (by rw [e5, e4, e3, e2, e1]; simp) s5 f6
  have s7 := step (u := u6) (by rw [e6, e5, e4, e3, e2, e1]; simp) s6 f7
  have s8 := step (u := u7) (by rw [e7, e6, e5, e4, e3, e2, e1]; simp) s7 f8
  have s9 := step (u := u8) (by rw [e8, e7, e6, e5, e4, e3, e2, e1]; simp) s8 f9
  have s10 := step (u := u9) (by rw [e9, e8, e7, e6, e5, e4, e3, e2, e1]; simp) s9 f10
  have s11 := step (u := u10) (by rw [e10, e9, e8, e7, e6, e5, e4, e3, e2, e1]; simp) s10 f11
  have s12 := step (u := u11) (by rw [e11, e10, e9, e8, e7, e6, e5, e4, e3, e2, e1]; simp) s11 f12
  simpa [Names.toList] using s12

/-- the search for the twelve names always succeeds -/
theorem C05_names_exist (used0 : List Str) : ∃ n, chooseNames used0 = some n :=
  EmitTotal.chooseNames_some used0

end KikiVerif.C05

#print axioms KikiVerif.C05.C05_fresh
#print axioms KikiVerif.C05.C05_names_distinct
#print axioms KikiVerif.C05.C05_names_exist
