/-
C05 — the emitted module compiles for any legal user naming.
A theorem cannot say "rustc accepts"; what is proved is the hygiene that "for
every naming" needs (first layer: freshness of every chosen internal name).
-/
import KikiVerif.Model.Emit

namespace KikiVerif.C05
open KikiVerif.Emit KikiVerif.Text

theorem firstFree_not_used (pref : Str) (used : List Str) :
    ∀ fuel i n, firstFree pref used fuel i = some n → n ∉ used := by
  intro fuel
  induction fuel with
  | zero => intro i n h; simp [firstFree] at h
  | succ k ih =>
    intro i n h
    simp only [firstFree] at h
    split at h
    · exact ih _ _ h
    · rename_i hc
      cases h
      intro hm
      exact hc (List.contains_iff_mem.mpr hm)

/-- `create_unique_identifier` returns a name that was not in use and records it -/
theorem C05_fresh (pref : Str) (used : List Str) (n : Str) (used' : List Str)
    (h : createUniqueIdentifier pref used = some (n, used')) : n ∉ used ∧ used' = used ++ [n] := by
  unfold createUniqueIdentifier at h
  split at h
  · rename_i hc
    cases h
    refine ⟨?_, rfl⟩
    intro hm
    simp at hc
    exact hc hm
  · cases hf : firstFree pref used (used.length + 1) 2 with
    | none => simp [hf] at h
    | some m =>
      simp [hf] at h
      obtain ⟨rfl, rfl⟩ := h
      exact ⟨firstFree_not_used pref used _ _ _ hf, rfl⟩

end KikiVerif.C05

#print axioms KikiVerif.C05.C05_fresh
