/-
C12 — outer attributes are reproduced verbatim on the matching emitted type.
(first layer: the emitted structure carries, for the terminal enum and for every
nonterminal, exactly the declaration's attribute texts in order; `render` prints
them one per line immediately before the item — `typeDefSrc`, `attrsSrc`)
-/
import KikiVerif.Proofs.Emit
import KikiVerif.Properties.C08
import KikiVerif.Properties.C09

namespace KikiVerif.C12
open KikiVerif KikiVerif.Emit

def TypeDef.attrs : TypeDef → List Str
  | .struct a _ _ => a
  | .enum a _ _ => a

def nontermAttrs : VFile.Nonterminal → List Str
  | .struct s => s.attrs.map (·.src)
  | .enum e => e.attrs.map (·.src)

theorem typeDefOf_attrs (te : VFile.TermEnum) (n : VFile.Nonterminal) (d : TypeDef)
    (h : typeDefOf te n = some d) : TypeDef.attrs d = nontermAttrs n := by
  cases n with
  | struct s =>
    simp only [typeDefOf, Option.map_eq_some_iff] at h
    obtain ⟨b, _, rfl⟩ := h
    rfl
  | enum e =>
    simp only [typeDefOf, Option.map_eq_some_iff] at h
    obtain ⟨b, _, rfl⟩ := h
    rfl

theorem mapM_attrs (te : VFile.TermEnum) : ∀ (ns : List VFile.Nonterminal) (ds : List TypeDef),
    ns.mapM (typeDefOf te) = some ds → ds.map TypeDef.attrs = ns.map nontermAttrs := by
  intro ns
  induction ns with
  | nil => intro ds h; simp at h; subst h; rfl
  | cons n ns ih =>
    intro ds h
    obtain ⟨d, ds', hd, hds, rfl⟩ := mapM_option_cons _ _ _ _ h
    simp [typeDefOf_attrs te n d hd, ih ds' hds]

/-- every emitted type item carries exactly its declaration's attributes, in order -/
theorem C12_emit {f : VFile.File} {enc : Encode.Enc} {t : Table.Table} {sha : Str} {m : Module}
    (h : moduleOf f enc t sha = some m) :
    m.tenumAttrs = f.tenum.attrs.map (·.src) ∧
    m.types.map TypeDef.attrs = f.nonterminals.map nontermAttrs := by
  obtain ⟨_, h2, _, _, _, _, _, h8, _⟩ := moduleOf_spec h
  exact ⟨h2, mapM_attrs _ _ _ h8⟩

/-- **C12, token**: the attribute token is exactly what the scanner specification delimits — `#[` followed by
the text up to the bracket that closes the initial `[` (bracket *stack*, any characters except newline) —
because the tokenizer equals that specification on every source text -/
theorem C12_token (src : Str) : Tokenize.tokenize src = Spec.scan src := C08.C08_tokenize_eq_spec src

/-- **C12, order**: the attributes of every declaration reach the AST in source order (`unFile` prints them, in
list order, in front of their declaration; the printed sequence equals the input tokens) -/
theorem C12_order (toks : List Token) (fuel : Nat) (t : FrontParse.CTree)
    (h : FrontParse.parse toks fuel = some (.ok t)) :
    ∃ ast, FrontParse.cstToAst t = some ast ∧ Spec.unFile ast = toks.map Spec.erase :=
  C09.C09_flatten toks fuel t h

end KikiVerif.C12

#print axioms KikiVerif.C12.C12_emit
#print axioms KikiVerif.C12.C12_token
#print axioms KikiVerif.C12.C12_order
