/-
C13 — terminal payload types are reproduced faithfully everywhere they are used.
(first layer: the terminal enum, the Node enum and the `try_into_*` methods all
carry the validated type string of *that* terminal)
-/
import KikiVerif.Proofs.Emit

namespace KikiVerif.C13
open KikiVerif KikiVerif.Emit

theorem C13_use_sites {f : VFile.File} {enc : Encode.Enc} {t : Table.Table} {sha : Str} {m : Module}
    (h : moduleOf f enc t sha = some m) :
    m.tenumVariants = f.tenum.variants.map (fun v => (v.name, v.ty)) ∧
    m.methods.map (fun x => (x.1, x.2.2)) = f.tenum.variants.map (fun v => (v.name, v.ty)) := by
  obtain ⟨_, _, _, h4, _, _, h7, _, _⟩ := moduleOf_spec h
  refine ⟨h4, ?_⟩
  rw [h7]
  unfold methodNames
  rw [List.map_map]
  have : ∀ (l : List VFile.TermVariant) (k : Nat),
      (l.zipIdx k).map ((fun (x : Str × Str × Str) => (x.1, x.2.2)) ∘
        fun (p : VFile.TermVariant × Nat) => (p.1.name, Emit.L "try_into_" ++ pascalToSnakeCase p.1.name ++ ['_'] ++ Text.natToStr p.2, p.1.ty))
      = l.map (fun v => (v.name, v.ty)) := by
    intro l
    induction l with
    | nil => intro k; rfl
    | cons v vs ih => intro k; simp only [List.zipIdx_cons, List.map_cons, Function.comp_apply]; rw [ih]
  exact this _ 0

end KikiVerif.C13

#print axioms KikiVerif.C13.C13_use_sites
