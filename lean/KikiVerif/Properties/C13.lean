/-
C13 — terminal payload types are reproduced faithfully everywhere they are used.
(first layer: the terminal enum, the Node enum and the `try_into_*` methods all
carry the validated type string of *that* terminal)
-/
import KikiVerif.Proofs.Emit
import KikiVerif.Properties.C09

namespace KikiVerif.C13
open KikiVerif KikiVerif.Emit

theorem C13_use_sites {f : VFile.File} {enc : Encode.Enc} {t : Table.Table} {sha : Str} {m : Module}
    (h : moduleOf f enc t sha = some m) :
    m.tenumVariants = f.tenum.variants.map (fun v => (v.name, v.ty)) ∧
    m.methods.map (fun x => (x.1, x.2.2)) = f.tenum.variants.map (fun v => (v.name, v.ty)) := by
  obtain ⟨_, _, _, h4, _, _, h7, _, _⟩ := moduleOf_spec h
  refine ⟨h4, ?_⟩
  rw [h7]
  unfold methodNames
  rw [List.map_map]
  have : ∀ (l : List VFile.TermVariant) (k : Nat),
      (l.zipIdx k).map ((fun (x : Str × Str × Str) => (x.1, x.2.2)) ∘
        fun (p : VFile.TermVariant × Nat) => (p.1.name, Emit.L "try_into_" ++ pascalToSnakeCase p.1.name ++ ['_'] ++ Text.natToStr p.2, p.1.ty))
      = l.map (fun v => (v.name, v.ty)) := by
    intro l
    induction l with
    | nil => intro k; rfl
    | cons v vs ih => intro k; simp only [List.zipIdx_cons, List.map_cons, Function.comp_apply]; rw [ih]
  exact this _ 0

/-- **C13, CST side**: path segments and generic arguments reach the AST in the order written, at every
nesting depth (`unType` prints them in list order; the printed sequence equals the input tokens) -/
theorem C13_type_order (toks : List Token) (fuel : Nat) (t : FrontParse.CTree)
    (h : FrontParse.parse toks fuel = some (.ok t)) :
    ∃ ast, FrontParse.cstToAst t = some ast ∧ Spec.unFile ast = toks.map Spec.erase :=
  C09.C09_flatten toks fuel t h

end KikiVerif.C13

#print axioms KikiVerif.C13.C13_use_sites
#print axioms KikiVerif.C13.C13_type_order
