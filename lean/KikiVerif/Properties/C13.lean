/-
C13 — terminal payload types are reproduced faithfully everywhere they are used.
(first layer: the terminal enum, the Node enum and the `try_into_*` methods all
carry the validated type string of *that* terminal)
-/
import KikiVerif.Proofs.Emit
import KikiVerif.Properties.C09
import KikiVerif.Model.Validate
import KikiVerif.Spec.Unparse
import KikiVerif.Properties.C06

namespace KikiVerif.C13
open KikiVerif KikiVerif.Emit

theorem C13_use_sites {f : VFile.File} {enc : Encode.Enc} {t : Table.Table} {sha : Str} {m : Module}
    (h : moduleOf f enc t sha = some m) :
    m.tenumVariants = f.tenum.variants.map (fun v => (v.name, v.ty)) ∧
    m.methods.map (fun x => (x.1, x.2.2)) = f.tenum.variants.map (fun v => (v.name, v.ty)) := by
  obtain ⟨_, _, _, h4, _, _, h7, _, _⟩ := moduleOf_spec h
  refine ⟨h4, ?_⟩
  rw [h7]
  unfold methodNames
  rw [List.map_map]
  have : ∀ (l : List VFile.TermVariant) (k : Nat),
      (l.zipIdx k).map ((fun (x : Str × Str × Str) => (x.1, x.2.2)) ∘
        fun (p : VFile.TermVariant × Nat) => (p.1.name, Emit.L "try_into_" ++ pascalToSnakeCase p.1.name ++ ['_'] ++ Text.natToStr p.2, p.1.ty))
      = l.map (fun v => (v.name, v.ty)) := by
    intro l
    induction l with
    | nil => intro k; rfl
    | cons v vs ih => intro k; simp only [List.zipIdx_cons, List.map_cons, Function.comp_apply]; rw [ih]
  exact this _ 0

/-- **C13, CST side**: path segments and generic arguments reach the AST in the order written, at every
nesting depth (`unType` prints them in list order; the printed sequence equals the input tokens) -/
theorem C13_type_order (toks : List Token) (fuel : Nat) (t : FrontParse.CTree)
    (h : FrontParse.parse toks fuel = some (.ok t)) :
    ∃ ast, FrontParse.cstToAst t = some ast ∧ Spec.unFile ast = toks.map Spec.erase :=
  C09.C09_flatten toks fuel t h

/-! ### the rendered type string is the user's tokens, one after the other -/

/-- the text of a token that can occur in a type (`, ` after a comma; everything else verbatim, no spaces) -/
def tkText : Spec.Tk → Str
  | .ident n => n
  | .dcolon => "::".toList
  | .comma => ", ".toList
  | .langle => ['<']
  | .rangle => ['>']
  | .lparen => ['(']
  | .rparen => [')']
  | _ => []

theorem path_tokens : ∀ p : List Ast.Ident, (Spec.unPath p).flatMap tkText = Validate.pathToString p := by
  intro p
  unfold Validate.pathToString
  induction p with
  | nil => rfl
  | cons i rest ih =>
    cases rest with
    | nil => simp [Spec.unPath, tkText, Text.join]
    | cons j rest' =>
      simp only [Spec.unPath, List.flatMap_cons, tkText, List.map_cons, Text.join] at ih ⊢
      rw [ih]
      simp [List.append_assoc]

mutual
theorem type_tokens : ∀ ty : Ast.Ty, (Spec.unType ty).flatMap tkText = Validate.typeToString ty
  | .unit => by simp [Spec.unType, tkText, Validate.typeToString]
  | .path p => by simp only [Spec.unType, Validate.typeToString]; exact path_tokens p
  | .complex callee args => by
    simp only [Spec.unType, Validate.typeToString, List.flatMap_append, path_tokens, types_tokens args]
    simp [tkText]
theorem types_tokens : ∀ tys : List Ast.Ty,
    (Spec.unTypes tys).flatMap tkText = Text.join ", ".toList (Validate.typesToStrings tys)
  | [] => by simp [Spec.unTypes, Validate.typesToStrings, Text.join]
  | [t] => by simp [Spec.unTypes, Validate.typesToStrings, Text.join, type_tokens t]
  | t :: u :: rest => by
    have ih := types_tokens (u :: rest)
    simp only [Spec.unTypes, Validate.typesToStrings, Text.join, List.flatMap_append, type_tokens t] at ih ⊢
    rw [ih]
    simp [tkText, List.append_assoc]
end

/-- **C13, rendering**: the type string stored for a terminal (and emitted at every use site, `C13_use_sites`)
is the concatenation of the tokens of the payload type as written — every path segment, `::`, `<`, `>`, `(`, `)`
verbatim and `, ` for each comma — at any nesting depth.  With `C13_type_order` (the AST's tokens are the
user's tokens) the emitted type is the user's type token for token. -/
theorem C13_type_tokens (ty : Ast.Ty) : Validate.typeToString ty = (Spec.unType ty).flatMap tkText :=
  (type_tokens ty).symm

/-- non-trivial instance: `a::B<(), C<d::E, F>>` -/
example :
    let i (s : String) : Ast.Ident := ⟨s.toList, 0⟩
    Validate.typeToString (.complex [i "a", i "B"] [.unit, .complex [i "C"] [.path [i "d", i "E"], .path [i "F"]]])
      = "a::B<(), C<d::E, F>>".toList := by
  decide

/-- **C13, field use sites**: in every emitted struct and enum variant, the type written for a used field whose
symbol is a terminal `$T` is the payload type string stored for `T` in the validated terminal enum — the string
`C13_type_tokens` shows to be the user's tokens verbatim (`C06_fields`, read for terminals: `SymTy`) -/
theorem C13_field_sites {f : VFile.File} {enc : Encode.Enc} {t : Table.Table} {sha : Str} {m : Module}
    (h : moduleOf f enc t sha = some m) (k : Nat) (n : VFile.Nonterminal) (d : TypeDef)
    (hn : f.nonterminals[k]? = some n) (hd : m.types[k]? = some d) : C06.DefMirrors f.tenum n d :=
  C06.C06_fields h k n d hn hd

/-- `get_type` answers with the payload type declared for that terminal name -/
theorem C13_getType_declared (te : VFile.TermEnum) (name ty : Str) (h : te.getType name = some ty) :
    ∃ v ∈ te.variants, v.name = name ∧ v.ty = ty := by
  unfold VFile.TermEnum.getType at h
  simp only [Option.map_eq_some_iff] at h
  obtain ⟨v, hv, rfl⟩ := h
  exact ⟨v, List.mem_of_find?_eq_some hv, by simpa using List.find?_some hv, rfl⟩

end KikiVerif.C13

#print axioms KikiVerif.C13.C13_type_tokens
#print axioms KikiVerif.C13.C13_use_sites
#print axioms KikiVerif.C13.C13_type_order
#print axioms KikiVerif.C13.C13_field_sites
#print axioms KikiVerif.C13.C13_getType_declared
