/-
C04 — a parser is emitted exactly for the LALR(1) grammars.
(first layer: `set_action` accepts a repeated identical action and nothing else)
-/
import KikiVerif.Model.Table
import KikiVerif.Proofs.Table
import KikiVerif.Proofs.NoPanic
import KikiVerif.Proofs.Encode

namespace KikiVerif.C04
open KikiVerif.Table KikiVerif.Machine KikiVerif.LR

/-- a second demand for a filled cell is accepted iff it is the same action -/
theorem C04_setAction_ok_iff (tb : TB) (state col : Nat) (it e : Item) (a ea : Action)
    (hl : tb.actions.lookup (state, col) = some (e, ea)) :
    (∃ tb', setAction tb state col it a = .ok tb') ↔ ea = a := by
  unfold setAction
  rw [hl]
  simp only
  split
  · rename_i h; exact ⟨fun _ => h, fun _ => ⟨tb, rfl⟩⟩
  · rename_i h
    constructor
    · rintro ⟨_, h'⟩; cases h'
    · intro h'; exact absurd h' h

/-- an empty cell is always filled -/
theorem C04_setAction_fresh (tb : TB) (state col : Nat) (it : Item) (a : Action)
    (hl : tb.actions.lookup (state, col) = none) :
    setAction tb state col it a = .ok { tb with actions := tb.actions ++ [((state, col), (it, a))] } := by
  unfold setAction; rw [hl]

/-- **C04 at the level of the automaton**: `machine_to_table` succeeds only if no state of the automaton it is
given has two items demanding different actions on one lookahead column; and it reports a conflict only if
some state has (`C11_payload`).  What remains for the full property is that the automaton *is* the LALR(1)
automaton of the grammar (DESIGN.md §6.3): compared with a specification-side construction on every run. -/
theorem C04_ok_conflict_free (c : Ctx) (m : Machine) (t : Table) (h : machineToTable c m = .ok t) :
    ¬ ∃ s e n, Genuine c m s e n :=
  ok_conflict_free c m t h

theorem C04_conflict_genuine (c : Ctx) (m : Machine) (s : Nat) (e n : Item)
    (h : machineToTable c m = .conflict s e n) : Genuine c m s e n :=
  conflict_genuine c m s e n h

/-- **C04 for the generator's own automaton, every validated file**: whenever `validated_ast_to_machine` returns a
machine `m`, `machine_to_table` does exactly one of two things — it returns a table and `m` has no pair of items
demanding different actions on one lookahead column, or it reports a conflict and that conflict is such a pair.
There is no third outcome (no panic: `Proofs/NoPanic`), so *a parser is emitted iff the generated automaton is
conflict-free*.  (That the generated automaton is *the* LALR(1) automaton of the grammar — exact lookahead
sets — is the part compared with an independent construction, not proved.) -/
theorem C04_emitted_iff_conflict_free (vf : VFile.File) (enc : Encode.Enc) (m : Machine) (fuel : Nat)
    (he : Encode.encode vf = some enc) (hm : machineOf enc.ctx fuel = some (some m)) :
    ((∃ t, machineToTable enc.ctx m = .ok t) ∧ ¬ ∃ s e n, Genuine enc.ctx m s e n) ∨
    (∃ s e n, machineToTable enc.ctx m = .conflict s e n ∧ Genuine enc.ctx m s e n) := by
  have ok := Encode.encode_ok he
  obtain ⟨fm, _, mok⟩ := machineOf_ok ok.terms hm
  cases h : machineToTable enc.ctx m with
  | ok t => exact Or.inl ⟨⟨t, rfl⟩, ok_conflict_free _ _ t h⟩
  | conflict s e n => exact Or.inr ⟨s, e, n, rfl, conflict_genuine _ _ s e n h⟩
  | panic site => exact absurd h (NoPanic.machineToTable_no_panic ok mok site)

end KikiVerif.C04

#print axioms KikiVerif.C04.C04_setAction_ok_iff
#print axioms KikiVerif.C04.C04_setAction_fresh
#print axioms KikiVerif.C04.C04_ok_conflict_free
#print axioms KikiVerif.C04.C04_conflict_genuine
#print axioms KikiVerif.C04.C04_emitted_iff_conflict_free
