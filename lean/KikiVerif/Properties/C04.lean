/-
C04 — a parser is emitted exactly for the LALR(1) grammars.
(first layer: `set_action` accepts a repeated identical action and nothing else)
-/
import KikiVerif.Model.Table
import KikiVerif.Proofs.Table
import KikiVerif.Proofs.NoPanic
import KikiVerif.Proofs.Encode
import KikiVerif.Proofs.FirstSound
import KikiVerif.Proofs.LalrConflict
import KikiVerif.Proofs.Universal
import KikiVerif.Properties.C02

namespace KikiVerif.C04
open KikiVerif.Table KikiVerif.Machine KikiVerif.LR

/-- a second demand for a filled cell is accepted iff it is the same action -/
theorem C04_setAction_ok_iff (tb : TB) (state col : Nat) (it e : Item) (a ea : Action)
    (hl : tb.actions.lookup (state, col) = some (e, ea)) :
    (∃ tb', setAction tb state col it a = .ok tb') ↔ ea = a := by
  unfold setAction
  rw [hl]
  simp only
  split
  · rename_i h; exact ⟨fun _ => h, fun _ => ⟨tb, rfl⟩⟩
  · rename_i h
    constructor
    · rintro ⟨_, h'⟩; cases h'
    · intro h'; exact absurd h' h

/-- an empty cell is always filled -/
theorem C04_setAction_fresh (tb : TB) (state col : Nat) (it : Item) (a : Action)
    (hl : tb.actions.lookup (state, col) = none) :
    setAction tb state col it a = .ok { tb with actions := tb.actions ++ [((state, col), (it, a))] } := by
  unfold setAction; rw [hl]

/-- **C04 at the level of the automaton**: `machine_to_table` succeeds only if no state of the automaton it is
given has two items demanding different actions on one lookahead column; and it reports a conflict only if
some state has (`C11_payload`).  What remains for the full property is that the automaton *is* the LALR(1)
automaton of the grammar (DESIGN.md §6.3): compared with a specification-side construction on every run. -/
theorem C04_ok_conflict_free (c : Ctx) (m : Machine) (t : Table) (h : machineToTable c m = .ok t) :
    ¬ ∃ s e n, Genuine c m s e n :=
  ok_conflict_free c m t h

theorem C04_conflict_genuine (c : Ctx) (m : Machine) (s : Nat) (e n : Item)
    (h : machineToTable c m = .conflict s e n) : Genuine c m s e n :=
  conflict_genuine c m s e n h

/-- **C04 for the generator's own automaton, every validated file**: whenever `validated_ast_to_machine` returns a
machine `m`, `machine_to_table` does exactly one of two things — it returns a table and `m` has no pair of items
demanding different actions on one lookahead column, or it reports a conflict and that conflict is such a pair.
There is no third outcome (no panic: `Proofs/NoPanic`), so *a parser is emitted iff the generated automaton is
conflict-free*.  (That the generated automaton is *the* LALR(1) automaton of the grammar is `C04_emitted_iff_lalr1`
below.) -/
theorem C04_emitted_iff_conflict_free (vf : VFile.File) (enc : Encode.Enc) (m : Machine) (fuel : Nat)
    (he : Encode.encode vf = some enc) (hm : machineOf enc.ctx fuel = some (some m)) :
    ((∃ t, machineToTable enc.ctx m = .ok t) ∧ ¬ ∃ s e n, Genuine enc.ctx m s e n) ∨
    (∃ s e n, machineToTable enc.ctx m = .conflict s e n ∧ Genuine enc.ctx m s e n) := by
  have ok := Encode.encode_ok he
  obtain ⟨fm, _, mok⟩ := machineOf_ok ok.terms hm
  cases h : machineToTable enc.ctx m with
  | ok t => exact Or.inl ⟨⟨t, rfl⟩, ok_conflict_free _ _ t h⟩
  | conflict s e n => exact Or.inr ⟨s, e, n, rfl, conflict_genuine _ _ s e n h⟩
  | panic site => exact absurd h (NoPanic.machineToTable_no_panic ok mok site)

/-- **C04 in the textbook's terms, every validated file**: a table (hence a parser) is produced iff the grammar has
no LALR(1) conflict, and a conflict is reported iff it has one — where an *LALR(1) conflict of the grammar*
(`Machine.LalrConflict`, stated without reference to the generated automaton) is: two states of the canonical
LR(1) collection with the same set of cores hold two items that want different parser actions (shift on the
terminal right of the dot / reduce by the item's rule on the item's lookahead / accept on end of input) on one
lookahead column.  This covers shift/reduce, reduce/reduce and accept/reduce conflicts, conflicts that exist only
after merging (LR(1)-but-not-LALR(1) grammars: `I1 ≠ I2`), and never rejects a grammar whose merged canonical
collection is conflict-free (LALR(1)-but-not-SLR(1) included).  The FIRST map `fm` used by the canonical
collection is the generator's, proved closed and sound (`firstSets_closed`, `firstSets_sound`), i.e. exact. -/
theorem C04_emitted_iff_lalr1 (vf : VFile.File) (enc : Encode.Enc) (m : Machine) (fuel : Nat)
    (he : Encode.encode vf = some enc) (hm : machineOf enc.ctx fuel = some (some m)) :
    ∃ fm, firstSets enc.ctx fuel = some (some fm) ∧ Valid.firstClosedB enc.ctx.g (toTbl fm) = true ∧
      FmSound enc.ctx.g fm ∧
      ((∃ t, machineToTable enc.ctx m = .ok t) ↔ ¬ LalrConflict enc.ctx fm) ∧
      ((∃ s e n, machineToTable enc.ctx m = .conflict s e n) ↔ LalrConflict enc.ctx fm) := by
  have ok := Encode.encode_ok he
  obtain ⟨fm, hfm, mok⟩ := machineOf_ok ok.terms hm
  have hiff := genuine_iff_lalrConflict ok (firstSets_closed hfm).2.1 mok
  refine ⟨fm, hfm, (firstSets_closed hfm).1, firstSets_sound hfm, ?_, ?_⟩
  · constructor
    · rintro ⟨t, ht⟩ hc
      exact ok_conflict_free _ _ t ht (hiff.mpr hc)
    · intro hnc
      cases h : machineToTable enc.ctx m with
      | ok t => exact ⟨t, rfl⟩
      | conflict s e n => exact absurd (hiff.mp ⟨s, e, n, conflict_genuine _ _ s e n h⟩) hnc
      | panic site => exact absurd h (NoPanic.machineToTable_no_panic ok mok site)
  · constructor
    · rintro ⟨s, e, n, h⟩
      exact hiff.mp ⟨s, e, n, conflict_genuine _ _ s e n h⟩
    · intro hc
      cases h : machineToTable enc.ctx m with
      | ok t => exact absurd (hiff.mpr hc) (ok_conflict_free _ _ t h)
      | conflict s e n => exact ⟨s, e, n, rfl⟩
      | panic site => exact absurd h (NoPanic.machineToTable_no_panic ok mok site)

/-- non-vacuity of `want`: a completed item wants a reduction on its lookahead, an item with a terminal right
of the dot wants a shift on it (a two-rule grammar `0 → t0`, `0 → t0 t1`: shift/reduce on different columns) -/
example :
    let c : Ctx := { g := { rules := [⟨0, [.t 0]⟩, ⟨0, [.t 0, .t 1]⟩], start := 0 }, nT := 2, nN := 1 }
    want c ⟨0, 2, 1⟩ = some (2, .reduce 0) ∧ want c ⟨1, 2, 1⟩ = some (1, .shift) ∧ want c ⟨2, 2, 1⟩ = some (2, .accept) := by
  decide

/-- **C04, "hence every ambiguous grammar", every validated file**: if some token sequence has two different
derivation trees from the start symbol, no table is produced — `machine_to_table` reports a (genuine) conflict.
(A produced table would make the emitted driver complete for the grammar, and a complete deterministic driver
returns *the* derivation tree of its input: `C02_unique`.) -/
theorem C04_ambiguous_rejected {P : Type} (vf : VFile.File) (enc : Encode.Enc) (m : Machine) (fuel : Nat)
    (he : Encode.encode vf = some enc) (hm : machineOf enc.ctx fuel = some (some m))
    (t1 t2 : Tree Nat P) (h1 : WF enc.ctx.g t1 (.n enc.ctx.g.start)) (h2 : WF enc.ctx.g t2 (.n enc.ctx.g.start))
    (hy : t1.yield = t2.yield) (hne : t1 ≠ t2) :
    ∃ s e n, machineToTable enc.ctx m = .conflict s e n ∧ Genuine enc.ctx m s e n := by
  have ok := Encode.encode_ok he
  obtain ⟨fm, _, mok⟩ := machineOf_ok ok.terms hm
  cases h : machineToTable enc.ctx m with
  | ok t =>
    obtain ⟨fm', hk, _⟩ := Universal.generator_checked ok hm h
    exact absurd (C02.C02_unique (Valid.complete_of_checked (P := P) hk) t1 t2 h1 h2 hy) hne
  | conflict s e n => exact ⟨s, e, n, rfl, conflict_genuine _ _ s e n h⟩
  | panic site => exact absurd h (NoPanic.machineToTable_no_panic ok mok site)

/-- non-vacuity of `C04_ambiguous_rejected`'s premises: the grammar `S → t0 | A`, `A → t0` has two different
derivation trees of the one-token sequence `t0` -/
example :
    let g : Grammar Nat Nat := { rules := [⟨0, [.t 0]⟩, ⟨0, [.n 1]⟩, ⟨1, [.t 0]⟩], start := 0 }
    let tk : Tok Nat Unit := ⟨0, ()⟩
    let t1 : Tree Nat Unit := .node 0 [.leaf tk]
    let t2 : Tree Nat Unit := .node 1 [.node 2 [.leaf tk]]
    WF g t1 (.n g.start) ∧ WF g t2 (.n g.start) ∧ t1.yield = t2.yield ∧ t1 ≠ t2 := by
  intro g tk t1 t2
  refine ⟨?_, ?_, rfl, ?_⟩
  · exact WF.node 0 ⟨0, [.t 0]⟩ _ rfl (.cons (.leaf tk) .nil)
  · exact WF.node 1 ⟨0, [.n 1]⟩ _ rfl (.cons (WF.node 2 ⟨1, [.t 0]⟩ _ rfl (.cons (.leaf tk) .nil)) .nil)
  · intro h; injection h with h1 _; cases h1

end KikiVerif.C04

#print axioms KikiVerif.C04.C04_setAction_ok_iff
#print axioms KikiVerif.C04.C04_setAction_fresh
#print axioms KikiVerif.C04.C04_ok_conflict_free
#print axioms KikiVerif.C04.C04_conflict_genuine
#print axioms KikiVerif.C04.C04_emitted_iff_conflict_free
#print axioms KikiVerif.C04.C04_emitted_iff_lalr1
#print axioms KikiVerif.C04.C04_ambiguous_rejected
