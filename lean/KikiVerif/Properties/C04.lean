/-
C04 — a parser is emitted exactly for the LALR(1) grammars.
(first layer: `set_action` accepts a repeated identical action and nothing else)
-/
import KikiVerif.Model.Table

namespace KikiVerif.C04
open KikiVerif.Table KikiVerif.Machine KikiVerif.LR

/-- a second demand for a filled cell is accepted iff it is the same action -/
theorem C04_setAction_ok_iff (tb : TB) (state col : Nat) (it e : Item) (a ea : Action)
    (hl : tb.actions.lookup (state, col) = some (e, ea)) :
    (∃ tb', setAction tb state col it a = .ok tb') ↔ ea = a := by
  unfold setAction
  rw [hl]
  simp only
  split
  · rename_i h; exact ⟨fun _ => h, fun _ => ⟨tb, rfl⟩⟩
  · rename_i h
    constructor
    · rintro ⟨_, h'⟩; cases h'
    · intro h'; exact absurd h' h

/-- an empty cell is always filled -/
theorem C04_setAction_fresh (tb : TB) (state col : Nat) (it : Item) (a : Action)
    (hl : tb.actions.lookup (state, col) = none) :
    setAction tb state col it a = .ok { tb with actions := tb.actions ++ [((state, col), (it, a))] } := by
  unfold setAction; rw [hl]

end KikiVerif.C04

#print axioms KikiVerif.C04.C04_setAction_ok_iff
#print axioms KikiVerif.C04.C04_setAction_fresh
